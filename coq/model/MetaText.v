(* MetaText.v — the metadata TEXT block that precedes every report (extension T04), transcribed from
     tackler-api/src/metadata.rs            Metadata::{from_mdi, from_metadata, push, text}
     tackler-api/src/metadata/items.rs      Text impls of TxnSetChecksum, AccountSelectorChecksum,
                                            ReportTimezone, TxnFilterDescription, GitInputReference,
                                            PriceRecord, PriceRecords (ITEM_PAD = 15)
     tackler-core/src/kernel/hash.rs        Hash::checksum: value = "{b:02x}" of every digest byte
     tackler-core/src/model/txn_data.rs     TxnData::{from, make_metadata, filter, get_all}
     tackler-core/src/parser/tackler_txns.rs git_to_txns: the GitInputReference item
     tackler-core/src/report.rs             write_txt_reports (metadata + "\n" before every report),
                                            write_acc_sel_checksum, write_report_timezone, write_price_metadata
     tackler-core/src/report/*_reporter.rs  which of the three a report writes, and the blank lines
     tackler-core/src/export/equity_exporter.rs  the metadata comment block of an equity transaction
   Text = list of Unicode scalar values.  Definitions only.
   The other models are used qualified (Audit / Codec / Journal / Tstamp / Price share short names). *)
From TkModel Require Import Base Dec.
From TkModel Require Audit Codec Journal Tstamp Price.

Definition ch_sp : N := 32%N.
Definition ch_nl : N := 10%N.

(* ------------------------------------------------------------------ items *)
(* tackler_api::metadata::Checksum: algorithm name and the hexadecimal text of the digest *)
Record checksum : Type := mkCk { ck_algo : list N; ck_value : list N }.
(* GitInputReference *)
Record git_ref : Type := mkGit {
  g_commit : list N; g_reference : option (list N); g_dir : list N; g_suffix : list N; g_message : list N }.
(* PriceRecord: `ts` is the ALREADY RENDERED time (txn_ts::as_tz_full in the report zone), `rate` the
   Display text of the Decimal *)
Record price_rec : Type := mkPR {
  pr_time : option (list N); pr_source : list N; pr_rate : option (list N); pr_target : list N }.

Inductive item : Type :=
| ITxnSet (size : N) (ck : checksum)        (* TxnSetChecksum *)
| ISel (ck : checksum)                      (* AccountSelectorChecksum *)
| IZone (name : list N)                     (* ReportTimezone *)
| IFilter (lines : list (list N))           (* TxnFilterDescription: the rendered lines *)
| IGit (g : git_ref)                        (* GitInputReference *)
| IPrices (rs : list price_rec).            (* PriceRecords *)

(* ------------------------------------------------------------------ fixed texts *)
Definition s_txn_set : list N := [84;120;110;32;83;101;116;32;67;104;101;99;107;115;117;109]%N.      (* "Txn Set Checksum" *)
Definition s_set_size : list N := [83;101;116;32;115;105;122;101]%N.                                  (* "Set size" *)
Definition s_acc_sel : list N :=                                                                      (* "Account Selector Checksum" *)
  [65;99;99;111;117;110;116;32;83;101;108;101;99;116;111;114;32;67;104;101;99;107;115;117;109]%N.
Definition s_zone : list N := [82;101;112;111;114;116;32;84;105;109;101;32;90;111;110;101]%N.         (* "Report Time Zone" *)
Definition s_tz_name : list N := [84;90;32;110;97;109;101]%N.                                         (* "TZ name" *)
Definition s_filter : list N := [70;105;108;116;101;114]%N.                                           (* "Filter" *)
Definition s_git : list N := [71;105;116;32;83;116;111;114;97;103;101]%N.                             (* "Git Storage" *)
Definition s_commit : list N := [99;111;109;109;105;116]%N.                                           (* "commit" *)
Definition s_reference : list N := [114;101;102;101;114;101;110;99;101]%N.                            (* "reference" *)
Definition s_fixed : list N := [70;73;88;69;68;32;98;121;32;99;111;109;109;105;116]%N.                (* "FIXED by commit" *)
Definition s_directory : list N := [100;105;114;101;99;116;111;114;121]%N.                            (* "directory" *)
Definition s_suffix : list N := [115;117;102;102;105;120]%N.                                          (* "suffix" *)
Definition s_message : list N := [109;101;115;115;97;103;101]%N.                                      (* "message" *)
Definition s_prices : list N := [67;111;109;109;111;100;105;116;121;32;80;114;105;99;101;115]%N.      (* "Commodity Prices" *)
Definition s_time : list N := [84;105;109;101]%N.                                                     (* "Time" *)
Definition s_at_txn : list N := [65;116;32;116;120;110;32;116;105;109;101]%N.                         (* "At txn time" *)
Definition s_commodity : list N := [67;111;109;109;111;100;105;116;121]%N.                            (* "Commodity" *)
Definition s_value : list N := [86;97;108;117;101]%N.                                                 (* "Value" *)
Definition s_none : list N := [78;111;110;101]%N.                                                     (* "None" *)
Definition s_select_all : list N := [115;101;108;101;99;116;32;97;108;108]%N.                         (* "select all" *)
Definition s_select_nz : list N :=                                                                    (* "select all non-zero" *)
  [115;101;108;101;99;116;32;97;108;108;32;110;111;110;45;122;101;114;111]%N.
Definition s_sep : list N := [32;58;32]%N.                                                            (* " : " *)
Definition s_dash : list N := [45]%N.                                                                 (* "-" *)
Definition s_dot : list N := [46]%N.                                                                  (* "." *)

(* ------------------------------------------------------------------ lines of one item (trait Text) *)
(* MetadataItem::ITEM_PAD *)
Definition item_pad : nat := 15%nat.
(* "{:>w$}": right-aligned in w CHARACTERS, blanks on the left; a longer text is not truncated *)
Definition pad_left (w : nat) (s : list N) : list N := repeat ch_sp (w - length s) ++ s.
(* format!("{:>pad$} : {}", k, v) *)
Definition kv (k v : list N) : list N := pad_left item_pad k ++ s_sep ++ v.

Definition price_lines (r : price_rec) : list (list N) :=
  [ kv s_time (match pr_time r with Some t => t | None => s_at_txn end);
    kv s_commodity (pr_source r);
    kv s_value ((match pr_rate r with Some v => v | None => s_dash end) ++ ch_sp :: pr_target r) ].
(* format!("{:>pad$} -", "") between two records *)
Definition price_sep : list N := pad_left item_pad [] ++ [ch_sp; 45%N].

(* GitInputReference::one_line (since commit 2efd58b, finding F26; before: message.trim(), which kept inner
   newlines):  message.split(['\n', '\r']).map(str::trim).filter(|l| !l.is_empty()).collect::<Vec<_>>().join(" ")
   str::trim is the Unicode White_Space trim (Journal.trim); U+000B, U+000C, U+0085, U+2028, U+2029 are white
   space but do not split *)
Definition is_eol (c : N) : bool := (c =? 10)%N || (c =? 13)%N.
Fixpoint split_eol (s : list N) : list (list N) :=
  match s with
  | [] => [[]]
  | c :: r =>
      if is_eol c then [] :: split_eol r
      else match split_eol r with
           | l :: ls => (c :: l) :: ls
           | [] => [[c]]
           end
  end.
Fixpoint join_sp (ls : list (list N)) : list N :=
  match ls with
  | [] => []
  | [x] => x
  | x :: r => x ++ ch_sp :: join_sp r
  end.
Definition nonempty_str (l : list N) : bool := match l with [] => false | _ :: _ => true end.
Definition one_line (m : list N) : list N :=
  join_sp (filter nonempty_str (map Journal.trim (split_eol m))).

Definition item_lines (it : item) : list (list N) :=
  match it with
  | ITxnSet n ck => [ s_txn_set; kv (ck_algo ck) (ck_value ck); kv s_set_size (Codec.show_N n) ]
  | ISel ck => [ s_acc_sel; kv (ck_algo ck) (ck_value ck) ]
  | IZone nm => [ s_zone; kv s_tz_name nm ]
  | IFilter ls => ls
  | IGit g =>
      [ s_git;
        kv s_commit (g_commit g);
        kv s_reference (match g_reference g with Some r => r | None => s_fixed end);
        kv s_directory (g_dir g);
        kv s_suffix (s_dot ++ g_suffix g);
        kv s_message (one_line (g_message g)) ]                      (* Self::one_line(&self.message) *)
  | IPrices rs =>
      match rs with
      | [] => []                                                     (* no record: no line at all *)
      | r :: rs' => s_prices :: price_lines r ++ flat_map (fun r' => price_sep :: price_lines r') rs'
      end
  end.

(* ------------------------------------------------------------------ Metadata::text *)
(* the vector `ts`: every item's lines followed by one empty string *)
Definition md_lines (items : list item) : list (list N) :=
  flat_map (fun it => item_lines it ++ [[]]) items.
(* Vec<String>::join("\n") *)
Fixpoint join_nl (ls : list (list N)) : list N :=
  match ls with
  | [] => []
  | [x] => x
  | x :: r => x ++ ch_nl :: join_nl r
  end.
Definition meta_text (items : list item) : list N := join_nl (md_lines items).

(* writeln! of every line *)
Definition lines_nl (ls : list (list N)) : list N := concat (map (fun l => l ++ [ch_nl]) ls).

(* ------------------------------------------------------------------ the values inside the items *)
(* Hash::checksum: write!(output, "{b:02x}") for every byte of the digest *)
Definition hex_byte (b : N) : list N := [Audit.hex_digit (b / 16)%N; Audit.hex_digit (b mod 16)%N].
Definition hex_text (digest : list N) : list N := flat_map hex_byte digest.

(* Rust str::split("\n") *)
Fixpoint split_nl (s : list N) : list (list N) :=
  match s with
  | [] => [[]]
  | c :: r =>
      if (c =? ch_nl)%N then [] :: split_nl r
      else match split_nl r with
           | l :: ls => (c :: l) :: ls
           | [] => [[c]]
           end
  end.
(* TxnFilterDescription::text: format!("{}", FilterDefZoned{..}).trim_end().split("\n") — `desc` is the
   Display text (Codec.describe_def for the UTC report zone; only the two time-stamp leaves depend
   on the zone) *)
Definition filter_lines (desc : list N) : list (list N) := split_nl (Journal.trim_end desc).
Definition filter_item (desc : list N) : item := IFilter (filter_lines desc).
Definition filter_item_utc (f : Codec.cfilter) : item := filter_item (Codec.describe_def f).

(* git_to_txns: what was asked for, and what it resolved to.  by_commit = GitInputSelector::CommitId;
   `gi_title` = object.message()?.title (the commit message up to the first empty line; gix) *)
Record git_in : Type := mkGitIn {
  gi_by_commit : bool; gi_sel : list N; gi_id : list N; gi_dir : list N; gi_suffix : list N; gi_title : list N }.
Fixpoint starts_with (p s : list N) : bool :=
  match p with
  | [] => true
  | a :: p' => match s with b :: s' => (a =? b)%N && starts_with p' s' | [] => false end
  end.
(* "don't show ref if it's plain commit id": id.to_string().starts_with(ref_str) *)
Definition git_reference (g : git_in) : option (list N) :=
  if gi_by_commit g then None
  else if starts_with (gi_sel g) (gi_id g) then None else Some (gi_sel g).
Definition git_item (g : git_in) : item :=
  IGit (mkGit (gi_id g) (git_reference g) (gi_dir g) (gi_suffix g) (gi_title g)).

(* PriceLookupCtx::metadata records as text: the time through `render` (as_tz_full in the report zone),
   the rate through Decimal's Display *)
Definition price_rec_of (render : Z -> list N) (p : Price.prec) : price_rec :=
  mkPR (option_map (fun tr => render (fst tr)) (Price.pr_used p)) (Price.pr_source p)
       (option_map (fun tr => Codec.dec_show (snd tr)) (Price.pr_used p)) (Price.pr_target p).
Definition price_recs (render : Z -> list N) (ctx : Price.pctx) : list price_rec :=
  map (price_rec_of render) (Price.metadata ctx).
(* txn_ts::as_tz_full(ts, report_tz) of an instant (ns), the zone given as instant -> offset seconds *)
Definition render_full (rtz : Z -> Z) (inst : Z) : list N :=
  Tstamp.as_tz_full rtz (Tstamp.mkZoned (Tstamp.mkJts (inst / Tstamp.NS)%Z (inst mod Tstamp.NS)%Z) 0).

Definition is_txn_set (it : item) : bool := match it with ITxnSet _ _ => true | _ => false end.
Definition is_some {A} (o : option A) : bool := match o with Some _ => true | None => false end.
Definition opt_list {A} (o : option A) : list A := match o with Some x => [x] | None => [] end.

Section Digest.
  (* the configured digest (bytes -> bytes), as in Audit.v *)
  Variable H : list N -> list N.

  (* TxnData::from: mdi_opt.map(Metadata::from_mdi) *)
  Definition txn_data_md (git : option git_in) : option (list item) :=
    option_map (fun g => [git_item g]) git.
  (* Metadata::from_metadata: every item but an existing TxnSetChecksum *)
  Definition from_metadata (md : list item) : list item := filter (fun it => negb (is_txn_set it)) md.
  (* TxnData::make_metadata: the stored items, then (with a hash = audit mode) the checksum of exactly
     the given transactions; `us` = their header uuids.  The error is calc_txn_checksum's. *)
  Definition make_metadata (base : option (list item)) (audit : bool) (algo : list N)
                           (us : list (option (list N))) : res (list item) :=
    let md := match base with Some m => from_metadata m | None => [] end in
    res_map (fun o => match o with
                      | Some (n, v) => md ++ [ITxnSet n (mkCk algo (hex_text v))]
                      | None => md
                      end)
            (Audit.make_metadata H audit us).
  (* TxnData::filter (flt = Some rendered description) / TxnData::get_all (None): the metadata of the
     transaction set, None = the set has no metadata at all (nothing is printed, not even a blank line) *)
  Definition make_items (audit : bool) (algo : list N) (git : option git_in)
                        (flt : option (list (list N))) (us : list (option (list N)))
    : res (option (list item)) :=
    let base := txn_data_md git in
    match flt with
    | Some ls => res_map (fun md => Some (md ++ [IFilter ls])) (make_metadata base audit algo us)
    | None => if audit || is_some base then res_map Some (make_metadata base audit algo us) else Ok None
    end.

  (* write_acc_sel_checksum / equity export: the selector item of a report (Audit.report_selector_md) *)
  Definition sel_item (audit equity : bool) (algo : list N) (pats : list (list N)) : option item :=
    match Audit.report_selector_md H audit equity pats with
    | Audit.SelNoItem => None
    | Audit.SelAll => Some (ISel (mkCk s_none s_select_all))
    | Audit.SelAllNonZero => Some (ISel (mkCk s_none s_select_nz))
    | Audit.SelSum v => Some (ISel (mkCk algo (hex_text v)))
    end.
End Digest.

(* ------------------------------------------------------------------ what a report writes before its title *)
(* write_txt_reports: format!("{}\n", md.text(tz)) when the set has metadata, nothing otherwise *)
Definition file_head (md : option (list item)) : list N :=
  match md with Some items => meta_text items ++ [ch_nl] | None => [] end.

Inductive report_kind : Type := RBalance | RBalGroup | RRegister.

(* write_acc_sel_checksum: the lines, then one empty line *)
Definition sel_block (sel : option item) : list N :=
  match sel with Some s => lines_nl (item_lines s) ++ [ch_nl] | None => [] end.
(* write_report_timezone: always for balance-group and register; the balance report writes it only when the
   price lookup context is not empty, which is exactly when there is a price record *)
Definition zone_block (k : report_kind) (zone : list N) (prices : list price_rec) : list N :=
  match k, prices with
  | RBalance, [] => []
  | _, _ => lines_nl (item_lines (IZone zone))
  end.
(* write_price_metadata: an empty line and the lines, or nothing *)
Definition price_block (prices : list price_rec) : list N :=
  match item_lines (IPrices prices) with
  | [] => []
  | ls => ch_nl :: lines_nl ls
  end.
(* writeln!(writer) once (balance) or twice (balance-group, register) before the title *)
Definition head_tail (k : report_kind) : list N :=
  match k with RBalance => [ch_nl] | _ => [ch_nl; ch_nl] end.
(* everything <Report>::write_txt_report writes before the title line *)
Definition report_head (k : report_kind) (sel : option item) (zone : list N) (prices : list price_rec) : list N :=
  sel_block sel ++ zone_block k zone prices ++ price_block prices ++ head_tail k.
(* a report FILE: the set's metadata, then the report's own head, then the title *)
Definition report_file_head (md : option (list item)) (k : report_kind) (sel : option item)
                            (zone : list N) (prices : list price_rec) : list N :=
  file_head md ++ report_head k sel zone prices.

(* ------------------------------------------------------------------ equity export *)
(* the items whose lines become the comment block of EVERY equity transaction (the `md` argument of
   EquityText.eq_md_lines): the set's items, then the selector item — both only when the set has
   metadata (`if let Some(md) = &txn_data.metadata`) *)
Definition equity_md (md : option (list item)) (sel : option item) : list (list (list N)) :=
  match md with
  | Some items => map item_lines (items ++ opt_list sel)
  | None => []
  end.
