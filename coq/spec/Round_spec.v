(* Round_spec.v — what a report may show for an exact figure, stated on rational numbers,
   independently of how rust_decimal rounds or prints. Definitions only. *)
From Coq Require Import QArith Qround Qabs.
From TkModel Require Import Base Dec Round.
Local Open Scope Z_scope.

(* 10^k as a positive number *)
Definition ppow10 (k : N) : positive :=
  match k with N0 => 1%positive | Npos p => Pos.pow 10 p end.

(* the exact rational value of a decimal: mantissa / 10^scale *)
Definition qval (d : dec) : Q := Qmake (dm d) (ppow10 (ds d)).

(* the figure can be written exactly with k decimals *)
Definition needs_at_most (d : dec) (k : N) : bool := dm d mod pow10 (ds d - k) =? 0.

(* round half up of a non-negative rational to k decimals: floor(q * 10^k + 1/2) / 10^k *)
Definition half_up (k : N) (q : Q) : Q :=
  Qmake (Qfloor (q * inject_Z (pow10 k) + (1 # 2))%Q) (ppow10 k).

(* round half away from zero: mirror image for negative numbers *)
Definition hafz (k : N) (q : Q) : Q :=
  (if Qle_bool 0 q then half_up k q else - half_up k (- q))%Q.

(* --- reading a printed figure back: optional '-', digits, optional '.' and digits ---
   mantissa = the number written by all digits, scale = number of digits after the '.' *)
Fixpoint dread_go (l : str) (m : Z) (dot : bool) (k : N) : option (Z * N) :=
  match l with
  | [] => Some (m, k)
  | c :: l' =>
      if (c =? 46)%N then (if dot then None else dread_go l' m true k)
      else if ((48 <=? c) && (c <=? 57))%N
           then dread_go l' (10 * m + Z.of_N (c - 48)) dot (if dot then (k + 1)%N else k)
           else None
  end.

Definition dread (t : str) : option dec :=
  match t with
  | [] => None
  | c :: l' =>
      if (c =? 45)%N
      then match l' with
           | [] => None
           | _ => option_map (fun mk => mkDec (- fst mk) (snd mk)) (dread_go l' 0 false 0%N)
           end
      else option_map (fun mk => mkDec (fst mk) (snd mk)) (dread_go t 0 false 0%N)
  end.

(* --- executable oracle on an OBSERVED text t printed for the exact figure d ---
   the text is a number with between min and max decimals whose value is the exact figure
   rounded half away from zero to max decimals (which is the exact figure itself whenever
   that can be written with max decimals) *)
Definition shown_ok (sc : scale_cfg) (d : dec) (t : str) : bool :=
  match dread t with
  | None => false
  | Some r =>
      ((sc_min sc <=? ds r)%N && (ds r <=? sc_max sc)%N)
      && Qeq_bool (qval r) (hafz (sc_max sc) (qval d))
  end.

(* a rounding result r (a decimal, not text) for d at k decimals *)
Definition round_ok (k : N) (d r : dec) : bool :=
  (ds r <=? k)%N && Qeq_bool (qval r) (hafz k (qval d)).

(* exact sums as rationals (value * 10^28 is the integer used by the C02/C03 specifications) *)
Definition q28 (z : Z) : Q := Qmake z (ppow10 28).

(* --- display only: report rows --- *)
From TkModel Require Import Acct Balance.
From TkSpec Require Import Balance_spec.

(* a printed text t is a number with min..max decimals denoting the exact rational q
   rounded half away from zero to max decimals *)
Definition shows (sc : scale_cfg) (t : str) (q : Q) : Prop :=
  exists v, dread t = Some v /\ (sc_min sc <= ds v <= sc_max sc)%N /\ Qeq (qval v) (hafz (sc_max sc) q).

(* the figures of a balance row are the exact sums of the postings (the conclusions of
   C02_own / C02_tree) and representable (scale <= 28) *)
Definition exact_row (ps : list bpost) (r : brow) : Prop :=
  dwf (r_own r) /\ dwf (r_tree r)
  /\ d28 (r_own r) = spec_own ps (r_key r) /\ d28 (r_tree r) = spec_tree ps (r_key r).

(* the text row shows the rounded exact sums of the postings *)
Definition row_shows (sc : scale_cfg) (ps : list bpost) (r : brow) (tr : bal_text_row) : Prop :=
  bt_acc tr = r_acc r /\ bt_comm tr = r_comm r
  /\ shows sc (bt_own tr) (q28 (spec_own ps (r_key r)))
  /\ shows sc (bt_tree tr) (q28 (spec_tree ps (r_key r))).
