(* Charts_spec.v — "uses only declared names", stated directly on the journal and the
   configuration, independent of the look-up machinery; the comparison configurations;
   ancestors; the boolean oracle on observed runs. Definitions only. *)
From TkModel Require Import Base Dec Acct Txn Accept Balance Charts.

(* ---- the names a journal uses ---- *)
(* commodities of a posting: its own and that of a closing price ('@' / '=');
   the commodity inside an opening position '{..}' is not a used name *)
Definition post_comms (rp : raw_post) : list str :=
  match rp_unit rp with
  | None => []
  | Some u => u_comm u :: match u_closing u with Some (_, _, c) => [c] | None => [] end
  end.
(* accounts posted to, the amount-less last posting included *)
Definition txn_accounts (ct : craw_txn) : list acct :=
  map rp_acc (rt_posts (ct_raw ct))
  ++ match rt_last (ct_raw ct) with Some a => [a] | None => [] end.
Definition journal_accounts (j : list craw_txn) : list acct := flat_map txn_accounts j.
Definition journal_comms (j : list craw_txn) : list str :=
  flat_map (fun ct => flat_map post_comms (rt_posts (ct_raw ct))) j.
Definition journal_tags (j : list craw_txn) : list str := flat_map ct_tags j.

(* commodities named by the configuration: report commodity (file and command line),
   and — when price conversion is on — both commodities of every price entry *)
Definition opt_list {A} (o : option A) : list A := match o with Some x => [x] | None => [] end.
Definition config_comms (cf : config) : list str :=
  opt_list (cf_report_comm cf) ++ opt_list (cf_overlap_comm cf)
  ++ (if cf_price_on cf then flat_map (fun be => [fst be; snd be]) (cf_price_comms cf) else []).

(* every used name is declared. The empty commodity (a posting without commodity) is not
   a name: it is governed by permit-empty-commodity, held fixed between compared runs. *)
Definition declared (cf : config) (j : list craw_txn) : Prop :=
  (forall a, In a (journal_accounts j) -> In a (cf_accounts cf))
  /\ (forall c, In c (config_comms cf ++ journal_comms j) -> c <> [] -> In c (cf_comms cf))
  /\ (forall t, In t (journal_tags j) -> In t (cf_tags cf))
  /\ (cf_equity_export cf = true -> In (cf_equity_account cf) (cf_accounts cf)).

Definition declared_b (cf : config) (j : list craw_txn) : bool :=
  forallb (fun a => mem_acct a (cf_accounts cf)) (journal_accounts j)
  && forallb (fun c => match c with [] => true | _ => mem_str c (cf_comms cf) end)
             (config_comms cf ++ journal_comms j)
  && forallb (fun t => mem_str t (cf_tags cf)) (journal_tags j)
  && (negb (cf_equity_export cf) || mem_acct (cf_equity_account cf) (cf_accounts cf)).

(* ---- the compared configurations ---- *)
Definition with_strict (b : bool) (cf : config) : config :=
  mkConfig b (cf_accounts cf) (cf_comms cf) (cf_permit_empty cf) (cf_tags cf)
           (cf_equity_export cf) (cf_equity_account cf) (cf_report_comm cf) (cf_overlap_comm cf)
           (cf_price_on cf) (cf_price_comms cf).
(* strict off and nothing declared; same empty-commodity permission, same everything else *)
Definition no_chart (cf : config) : config :=
  mkConfig false [] [] (cf_permit_empty cf) []
           (cf_equity_export cf) (cf_equity_account cf) (cf_report_comm cf) (cf_overlap_comm cf)
           (cf_price_on cf) (cf_price_comms cf).

(* ---- account tree ---- *)
(* a is a proper ancestor of d: a non-empty proper prefix *)
Definition is_ancestor (a d : acct) : Prop :=
  exists n, (1 <= n < length d)%nat /\ a = firstn n d.
Definition proper_ancestors (d : acct) : list acct :=
  map (fun n => firstn n d) (seq 1 (length d - 1)).
Definition accts_wf (l : list acct) : Prop := forall a, In a l -> a <> [].

(* the postings of accepted transactions as the balance sees them *)
Definition posted (ts : list (list posting)) : list acct := map p_acc (concat ts).
Definition on_posted (ts : list (list posting)) (bps : list bpost) : Prop :=
  forall b, In b bps -> In (bp_acc b) (posted ts).

(* ---- observed runs and the oracle ---- *)
Definition posting_eqb (a b : posting) : bool :=
  acct_eqb (p_acc a) (p_acc b) && str_eqb (p_comm a) (p_comm b)
  && drepr_eqb (p_amount a) (p_amount b) && drepr_eqb (p_txn_amount a) (p_txn_amount b)
  && Bool.eqb (p_total a) (p_total b) && str_eqb (p_txn_comm a) (p_txn_comm b).
Definition ts_eqb (a b : list (list posting)) : bool := list_eqb (list_eqb posting_eqb) a b.

(* one run of the implementation: rejected (None) or the accepted transactions, and
   whether every requested report was produced *)
Record run_obs : Type := mkRun { o_ts : option (list (list posting)); o_reports_ok : bool }.

(* three runs of one journal: strict with the charts, strict off with the same charts,
   strict off with nothing declared; eq_sl / eq_ln: all outputs byte-identical *)
Record obs : Type := mkObs { o_s : run_obs; o_l : run_obs; o_n : run_obs; o_eq_sl : bool; o_eq_ln : bool }.

Definition obs_spec (cf : config) (j : list craw_txn) (o : obs) : Prop :=
  (* strict accepts exactly when the journal is acceptable at all and uses declared names only *)
  (match o_ts (o_s o), o_ts (o_n o) with
   | Some ts, Some tn => declared cf j /\ ts_eqb ts tn = true
   | Some _, None => False
   | None, Some _ => ~ declared cf j
   | None, None => True
   end)
  (* strict off: neither acceptance nor any output depends on the charts *)
  /\ (match o_ts (o_l o), o_ts (o_n o) with
      | Some tl, Some tn => ts_eqb tl tn = true /\ o_eq_ln o = true
      | None, None => True
      | _, _ => False
      end)
  (* both modes accept: identical *)
  /\ (match o_ts (o_s o), o_ts (o_l o) with
      | Some ts, Some tl => ts_eqb ts tl = true /\ o_eq_sl o = true
      | _, _ => True
      end)
  (* accepted: every report is produced (every ancestor resolvable) *)
  /\ (forall r, In r [o_s o; o_l o; o_n o] -> o_ts r <> None -> o_reports_ok r = true).

Definition run_ok_b (r : run_obs) : bool :=
  match o_ts r with Some _ => o_reports_ok r | None => true end.

Definition obs_ok_b (cf : config) (j : list craw_txn) (o : obs) : bool :=
  (match o_ts (o_s o), o_ts (o_n o) with
   | Some ts, Some tn => declared_b cf j && ts_eqb ts tn
   | Some _, None => false
   | None, Some _ => negb (declared_b cf j)
   | None, None => true
   end)
  && (match o_ts (o_l o), o_ts (o_n o) with
      | Some tl, Some tn => ts_eqb tl tn && o_eq_ln o
      | None, None => true
      | _, _ => false
      end)
  && (match o_ts (o_s o), o_ts (o_l o) with
      | Some ts, Some tl => ts_eqb ts tl && o_eq_sl o
      | _, _ => true
      end)
  && run_ok_b (o_s o) && run_ok_b (o_l o) && run_ok_b (o_n o).
