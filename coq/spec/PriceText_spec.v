(* PriceText_spec.v — T03: well-formedness of price entries and of the layouts the price-file grammar
   allows (the hypotheses of the round-trip theorems), and the boolean comparison used by the
   correspondence check. Definitions only.  The predicates on time stamps, identifiers and decimals are
   those of Journal_spec (ts_ok, comm_ok) and Dec (fits). *)
From TkModel Require Import Base Dec Acct Txn Accept Journal Price PriceText.
From TkSpec Require Import Journal_spec Price_spec.
Local Open Scope Z_scope.

(* an entry that can be written at offset off and read back: the instant is printable at that offset
   (whole-minute offset, civil year 0..9999, inside jiff's range), both commodities are identifiers of
   the grammar that Commodity::from accepts, the rate is a rust_decimal (96-bit mantissa, scale <= 28) *)
Definition pentry_wf_at (off : Z) (e : pentry) : bool :=
  ts_ok (pe_ts e) off && comm_ok (pe_base e) && fits (pe_rate e) && comm_ok (pe_eq e).
Definition pentry_wf (e : pentry) : bool := pentry_wf_at 0 e.

(* strict mode: every commodity of the file is in commodities.names when the file is read *)
Definition name_known (cfg : pdcfg) (n : list N) : bool := negb (pd_strict cfg) || mem_str n (pd_comms cfg).
Definition entry_known (cfg : pdcfg) (e : pentry) : bool := name_known cfg (pe_base e) && name_known cfg (pe_eq e).

(* layouts *)
Definition blanks (s : list N) : bool := forallb is_sp s.
Definition blanks1 (s : list N) : bool := blanks s && negb (is_nil s).
Definition layout_ok (ly : layout) : bool :=
  blanks1 (ly_s1 ly) && blanks1 (ly_s2 ly) && blanks1 (ly_s3 ly) && blanks1 (ly_s4 ly)
  && blanks (ly_trail ly)
  && match ly_comment ly with Some c => no_eol c | None => true end
  && forallb is_msp (ly_gap ly).
Definition laid_ok (le : layout * pentry) : bool := layout_ok (fst le) && pentry_wf_at (ly_off (fst le)) (snd le).
Definition blank_line_ok (b : list N * bool) : bool := blanks (fst b).

(* ------------------------------------------------------------------ comparison with the implementation *)
Definition pe_same_b (a b : pentry) : bool :=
  (pe_ts a =? pe_ts b) && str_eqb (pe_base a) (pe_base b) && drepr_eqb (pe_rate a) (pe_rate b)
  && str_eqb (pe_eq a) (pe_eq b).
(* the implementation's outcome: None = the file was rejected, Some db = the stored data base *)
Definition outcome_same_b (m : res (list pentry)) (impl : option (list pentry)) : bool :=
  match m, impl with
  | Ok db, Some db' => list_eqb pe_same_b db db'
  | Err _, None => true
  | _, _ => false
  end.
