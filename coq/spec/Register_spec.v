(* Register_spec.v — what the register report must show, stated directly on the
   transactions: canonical order, and for every row the exact sum of the amounts
   posted so far to the row's (account, commodity). Definitions only. *)
From Coq Require Import Permutation Sorted.
From TkModel Require Import Base Dec Acct Txn Balance Register.
From TkSpec Require Import Balance_spec.
Local Open Scope Z_scope.

(* ---------- well-formed input: what Decimal guarantees ---------- *)
Definition posting_wf (p : posting) : Prop := dwf (p_amount p).
Definition txn_wf (t : txn) : Prop := Forall posting_wf (t_posts t).

(* ---------- canonical order of transactions ---------- *)
Definition hdr_le (a b : txn) : Prop := header_cmp (t_hdr a) (t_hdr b) <> Gt.
Definition hdr_lt (a b : txn) : Prop := header_cmp (t_hdr a) (t_hdr b) = Lt.
(* same instant, code, description and uuid as header h *)
Definition hdr_same (h : header) (t : txn) : bool :=
  match header_cmp (t_hdr t) h with Eq => true | _ => false end.

(* ---------- order of the rows inside an entry ---------- *)
Definition post_le (a b : posting) : Prop := key_cmp (p_key a) (p_key b) <> Gt.

(* ---------- exact running totals ---------- *)
Definition pamt28 (p : posting) : Z := d28 (p_amount p).
Definition same_key (k : key) (p : posting) : bool := key_eqb (p_key p) k.
(* exact sum of the amounts posted to (account, commodity) k among ps *)
Definition key_sum (k : key) (ps : list posting) : Z :=
  zsum (map pamt28 (filter (same_key k) ps)).

(* the total to show next to posting p when `earlier` are all postings listed before it
   (those of all earlier transactions, and the rows above it in its own entry) *)
Definition spec_total (earlier : list posting) (p : posting) : Z :=
  key_sum (p_key p) earlier + pamt28 p.

(* rows of one entry whose postings are shown in the order ps *)
Fixpoint spec_rows (earlier ps : list posting) : list (posting * Z) :=
  match ps with
  | [] => []
  | p :: ps' => (p, spec_total earlier p) :: spec_rows (earlier ++ [p]) ps'
  end.

(* the complete register of the transactions ts (already in report order), when the
   rows of transaction t are shown in the order `ord t` *)
Fixpoint spec_entries (ord : txn -> list posting) (earlier : list posting) (ts : list txn)
  : list (txn * list (posting * Z)) :=
  match ts with
  | [] => []
  | t :: ts' => (t, spec_rows earlier (ord t)) :: spec_entries ord (earlier ++ ord t) ts'
  end.

(* in-entry order of the implementation: stable by (commodity, account string) *)
Definition entry_posts (t : txn) : list posting := sort_by post_leb (t_posts t).

(* observation of the model's output: posting and exact value of the shown total *)
Definition obs_row (r : rrow) : posting * Z := (rr_post r, d28 (rr_total r)).
Definition obs_entry (e : rentry) : txn * list (posting * Z) :=
  (re_txn e, map obs_row (re_rows e)).

(* the last total shown for key k in a sequence of rows *)
Fixpoint last_total (k : key) (rows : list (posting * Z)) : option Z :=
  match rows with
  | [] => None
  | (p, z) :: rows' =>
      match last_total k rows' with
      | Some z' => Some z'
      | None => if same_key k p then Some z else None
      end
  end.

(* the postings as the balance report (C02) sees them *)
Definition bposts_of (ts : list txn) : list bpost :=
  map (fun p => mkBpost (p_acc p) (p_comm p) (p_amount p)) (flat_map t_posts ts).

(* value stored in the accumulator for key k (0 when absent) *)
Definition st_val (st : list ((list (list N) * list N) * dec)) (k : key) : Z :=
  match st_get st k with Some v => d28 v | None => 0 end.

(* restricting an entry to the selected rows *)
Definition restrict (sel : rrow -> bool) (e : rentry) : rentry :=
  mkRentry (re_txn e) (filter sel (re_rows e)).

(* ---------- what an OBSERVED register has to satisfy ---------- *)
(* observed row: account, commodity, amount, running total; observed entry: position of
   its transaction in the input, rows *)
Record orow : Type := mkOrow { o_acc : acct; o_comm : list N; o_amount : dec; o_total : dec }.
Notation oentry := (nat * list orow)%type (only parsing).

(* entry a is listed before entry b: strictly earlier header, or equal header and
   earlier in the input (position, transaction) *)
Definition before (a b : nat * txn) : Prop :=
  hdr_lt (snd a) (snd b)
  \/ (header_cmp (t_hdr (snd a)) (t_hdr (snd b)) = Eq /\ (fst a < fst b)%nat).

(* an observed row shows the expected posting and the expected exact total *)
Definition row_rel (e : posting * Z) (o : orow) : Prop :=
  p_acc (fst e) = o_acc o /\ p_comm (fst e) = o_comm o
  /\ pamt28 (fst e) = d28 (o_amount o) /\ snd e = d28 (o_total o).

(* ---------- the executable oracle ---------- *)
Fixpoint pick (input : list txn) (idxs : list nat) : option (list txn) :=
  match idxs with
  | [] => Some []
  | i :: idxs' =>
      match nth_error input i, pick input idxs' with
      | Some t, Some l => Some (t :: l)
      | _, _ => None
      end
  end.

Fixpoint all_pairs_b {A} (r : A -> A -> bool) (l : list A) : bool :=
  match l with
  | [] => true
  | x :: l' => forallb (r x) l' && all_pairs_b r l'
  end.

(* before: strictly earlier header, or equal header and earlier in the input *)
Definition before_b (a b : nat * txn) : bool :=
  match header_cmp (t_hdr (snd a)) (t_hdr (snd b)) with
  | Lt => true
  | Eq => Nat.ltb (fst a) (fst b)
  | Gt => false
  end.

Definition is_perm_of_range (idxs : list nat) (n : nat) : bool :=
  Nat.eqb (length idxs) n && forallb (fun i => existsb (Nat.eqb i) idxs) (seq 0 n).

Definition order_ok (input : list txn) (idxs : list nat) (out : list txn) : bool :=
  is_perm_of_range idxs (length input) && all_pairs_b before_b (combine idxs out).

Fixpoint rforall2b {A B} (f : A -> B -> bool) (a : list A) (b : list B) : bool :=
  match a, b with
  | [], [] => true
  | x :: a', y :: b' => f x y && rforall2b f a' b'
  | _, _ => false
  end.

Definition keep (names : list acct) (p : posting) : bool :=
  match names with
  | [] => true
  | _ => existsb (acct_eqb (p_acc p)) names
  end.

Definition row_ok (e : posting * Z) (o : orow) : bool :=
  acct_eqb (p_acc (fst e)) (o_acc o) && str_eqb (p_comm (fst e)) (o_comm o)
  && (pamt28 (fst e) =? d28 (o_amount o)) && (snd e =? d28 (o_total o)).

Definition has_rows {A B} (e : A * list B) : bool := match snd e with [] => false | _ => true end.

(* what must be listed when the transactions `out` (positions `order` in the input) are
   reported with the selector `names`: per transaction the selected rows of the complete
   register; entries left without rows are not listed *)
Definition expected_entries (names : list acct) (order : list nat) (out : list txn)
  : list (nat * list (posting * Z)) :=
  filter has_rows
    (combine order (map (fun e => filter (fun r => keep names (fst r)) (snd e))
                        (spec_entries entry_posts [] out))).

Definition entry_ok (e : nat * list (posting * Z)) (o : oentry) : bool :=
  Nat.eqb (fst e) (fst o) && rforall2b row_ok (snd e) (snd o).

(* rows inside an entry ascend by (commodity, account string) *)
Definition orow_key (o : orow) : key := (o_acc o, o_comm o).
Definition rows_sorted_b (rows : list orow) : bool :=
  all_pairs_b (fun a b => key_leb (orow_key a) (orow_key b)) rows.

(* the last total shown for each posted key is the balance report's account sum;
   only meaningful when nothing is hidden *)
Definition orow_obs (o : orow) : posting * Z :=
  (mkPosting (o_acc o) (o_comm o) (o_amount o) (o_amount o) false (o_comm o), d28 (o_total o)).
Definition last_is_balance_b (input : list txn) (obs : list oentry) : bool :=
  let rows := map orow_obs (flat_map snd obs) in
  let bps := bposts_of input in
  forallb (fun p => match last_total (p_key p) rows with
                    | Some z => z =? spec_own bps (p_key p)
                    | None => false
                    end) (flat_map t_posts input).

(* order: positions (in the input) of the transactions in the implementation's order;
   obs: the register entries it produced (entries without rows are ignored: the text
   report does not show them) *)
Definition reg_ok (input : list txn) (names : list acct) (order : list nat) (obs : list oentry) : bool :=
  match pick input order with
  | None => false
  | Some out =>
      order_ok input order out
      && rforall2b entry_ok (expected_entries names order out) (filter has_rows obs)
      && forallb (fun o => rows_sorted_b (snd o)) obs
      && match names with [] => last_is_balance_b input obs | _ => true end
  end.
