(* T06_spec.v — reading the OUTPUT OF A WHOLE RUN, independent of how T06_run builds it:
   the console text is split at the separator lines (82 '*' / 82 '#') into the block before the first
   report and the framed reports; inside a report (or a report file) the text from the title line on is
   located by the title and its underline; on those embedded texts the end-to-end oracles of T05 / T01
   are evaluated with the transactions PARSED FROM THE JOURNAL TEXT and the price file AS WRITTEN.
   Also here: run_hyp, the boolean form of the hypotheses of T05's theorems for a run (decided on the
   inputs of the run), and run_dom, the domain restriction of the model itself.  Definitions only. *)
From TkModel Require Import Base Dec Acct Txn Journal Balance Register Round Price Time Group.
From TkModel Require Import ReportText T05_report PriceText T06_run.
From TkModel Require Filter MetaText.
From TkSpec Require Import Balance_spec Register_spec Round_spec Price_spec ReportText_spec T05_spec.
Local Open Scope Z_scope.

(* ------------------------------------------------------------------ reading the console text *)
Definition is_sep (c : N) (l : list N) : bool := Nat.eqb (length l) 82 && forallb (N.eqb c) l.
Definition is_star_line (l : list N) : bool := is_sep 42%N l.
Definition is_hash_line (l : list N) : bool := is_sep 35%N l.

(* the lines before the first line satisfying p, and the lines after it *)
Fixpoint cut_at (p : list N -> bool) (ls : list (list N)) : option (list (list N) * list (list N)) :=
  match ls with
  | [] => None
  | l :: r => if p l then Some ([], r)
              else match cut_at p r with Some (a, b) => Some (l :: a, b) | None => None end
  end.

(* star line, report lines, hash line, repeated; after the last hash line only the empty rest of the
   split (the text ends in a newline) *)
Fixpoint read_frames (fuel : nat) (ls : list (list N)) : option (list (list (list N))) :=
  match fuel with
  | O => None
  | S f =>
      match ls with
      | [] => Some []
      | [[]] => Some []
      | l :: r =>
          if is_star_line l then
            match cut_at is_hash_line r with
            | Some (body, r') => option_map (cons body) (read_frames f r')
            | None => None
            end
          else None
      end
  end.

Fixpoint before_star (ls : list (list N)) : list (list N) * list (list N) :=
  match ls with
  | [] => ([], [])
  | l :: r => if is_star_line l then ([], ls) else let '(a, b) := before_star r in (l :: a, b)
  end.

(* (lines before the first report, the lines of every framed report) *)
Definition read_console (out : list N) : option (list (list N) * list (list (list N))) :=
  let ls := text_lines out in
  let '(pre, rest) := before_star ls in
  option_map (fun fr => (pre, fr)) (read_frames (S (length ls)) rest).

(* the lines of a report from its title line on: the first line equal to the title that is followed by
   the underline of the title's length *)
Fixpoint from_title (title : list N) (ls : list (list N)) : option (list (list N)) :=
  match ls with
  | l :: ((u :: _) as r) =>
      if str_eqb l title && str_eqb u (repeat ch_dash (length title)) then Some ls else from_title title r
  | _ => None
  end.
(* every line followed by a newline *)
Definition unlines_nl (ls : list (list N)) : list N := concat (map (fun l => l ++ [ch_nl]) ls).

(* ------------------------------------------------------------------ the lookup, read off the configuration *)
Definition spec_lk (cfg : run_cfg) : option lookup :=
  match rc_commodity cfg with
  | None => Some LkNone
  | Some _ =>
      match rc_lookup cfg, rc_before cfg with
      | LtNone, _ => Some LkNone
      | LtTxnTime, _ => Some LkTxnTime
      | LtLastPrice, _ => Some LkLastPrice
      | LtGivenTime, Some t => Some (LkGivenTime t)
      | LtGivenTime, None => None
      end
  end.

(* ------------------------------------------------------------------ the figure oracles on an embedded report *)
(* file = the price file as written, txns = the transaction set parsed from the journal text;
   `body` = the text from the title line on *)
Definition body_oracle (cfg : run_cfg) (file : list pentry) (txns : list txn)
           (k : MetaText.report_kind) (body : list N) : bool :=
  match spec_lk cfg with
  | None => false
  | Some lk =>
      match k with
      | MetaText.RBalance =>
          balance_text_ok (rc_title_bal cfg) (rc_scale cfg) lk (rc_commodity cfg) file (sel_of cfg k) txns body
      | MetaText.RRegister =>
          register_text_ok (rc_title_reg cfg) (rc_scale cfg) (ts_text cfg) lk (rc_commodity cfg) file
                           (sel_of cfg k) txns body
      | MetaText.RBalGroup =>
          match conv_balgrp (rc_group_by cfg) (rtz cfg) lk (rc_commodity cfg) (load_db file) (sel_of cfg k) txns with
          | Some gs => grp_text_ok (rc_title_grp cfg) (rc_scale cfg) (map text_group gs) body
          | None => false
          end
      end
  end.

(* on the lines of a framed report / of a report file *)
Definition report_oracle (cfg : run_cfg) (file : list pentry) (txns : list txn)
           (k : MetaText.report_kind) (ls : list (list N)) : bool :=
  match from_title (title_of cfg k) ls with
  | Some bl => body_oracle cfg file txns k (unlines_nl bl)
  | None => false
  end.

(* the whole console text: as many framed reports as targets, each passing its oracle *)
Definition console_oracle (cfg : run_cfg) (file : list pentry) (txns : list txn) (out : list N) : bool :=
  match rc_targets cfg with
  | [] => true
  | _ =>
      match read_console out with
      | Some (_, frames) => forall2b (report_oracle cfg file txns) (rc_targets cfg) frames
      | None => false
      end
  end.

(* a report file: the lines of its content (the last line ends in a newline: drop the empty rest) *)
Definition content_lines (c : list N) : list (list N) :=
  match rev (text_lines c) with [] :: r => rev r | _ => text_lines c end.
Definition file_oracle (cfg : run_cfg) (file : list pentry) (txns : list txn)
           (k : MetaText.report_kind) (content : list N) : bool :=
  report_oracle cfg file txns k (content_lines content).

(* ------------------------------------------------------------------ hypotheses of the figure theorems, decided *)
Definition t6_no_nlb (s : list N) : bool := forallb (fun c => negb (N.eqb c ch_nl)) s.
Definition opt_fieldb (s : list N) : bool := match s with [] => true | _ => fieldb s end.
Definition comp_okb (c : list N) : bool := nonempty c && forallb (fun x => negb (N.eqb x colon)) c.
Definition acct_okb (a : list (list N)) : bool :=
  match a with [] => false | _ => forallb (fun c => comp_okb c && fieldb c) a end.
Definition dwfb (d : dec) : bool := (ds d <=? 28)%N.

Definition post_hyp (lk : lookup) (rc : option (list N)) (f : list pentry) (t : Z) (p : posting) : bool :=
  dwfb (p_amount p) && dwfb (cv_amount (spec_conv lk rc f t p))
  && opt_fieldb (p_comm p) && acct_okb (p_acc p) && t6_no_nlb (acct_str (p_acc p)).
Definition header_hyp (ts : list N) (h : header) : bool :=
  t6_no_nlb ts && t6_no_nlb (opt_str (h_code h)) && t6_no_nlb (opt_str (h_desc h)) && t6_no_nlb (opt_str (h_uuid h))
  && forallb t6_no_nlb (h_tags h) && forallb t6_no_nlb (h_comments h).
Definition txn_hyp (cfg : run_cfg) (lk : lookup) (f : list pentry) (tx : txn) : bool :=
  header_hyp (ts_text cfg (t_hdr tx)) (t_hdr tx)
  && forallb (post_hyp lk (rc_commodity cfg) f (h_inst (t_hdr tx))) (t_posts tx).

Fixpoint distinct_keysb (f : list pentry) : bool :=
  match f with
  | [] => true
  | e :: f' => negb (existsb (fun e' => (pe_ts e =? pe_ts e') && str_eqb (pe_base e) (pe_base e')
                                        && str_eqb (pe_eq e) (pe_eq e')) f')
               && distinct_keysb f'
  end.

(* the hypotheses of T05_balance_shown / T05_register_shown for the state of a run *)
Definition run_hyp (cfg : run_cfg) (st : run_state) : bool :=
  (sc_min (rc_scale cfg) <=? sc_max (rc_scale cfg))%N
  && distinct_keysb (rs_file st)
  && t6_no_nlb (rc_title_bal cfg) && t6_no_nlb (rc_title_grp cfg) && t6_no_nlb (rc_title_reg cfg)
  && opt_fieldb (rc_name (rc_commodity cfg))
  && forallb (txn_hyp cfg (rs_lk st) (rs_file st)) (rs_txns st).

(* ------------------------------------------------------------------ the domain of the run model *)
(* account selectors are literal names: no regex meta character, so the pattern matches exactly the name *)
Definition plain_name (a : list (list N)) : bool :=
  match a with [] => false | _ => forallb (fun c => nonempty c && forallb (fun x => negb (Regex.is_meta x) && negb (N.eqb x colon)) c) a end.
Definition plain_sel (o : option (list (list (list N)))) : bool :=
  match o with Some l => forallb plain_name l | None => true end.
Fixpoint has_ts_leaf (f : Filter.tfilter) : bool :=
  match f with
  | Filter.FAnd fs | Filter.FOr fs => existsb has_ts_leaf fs
  | Filter.FNot g => has_ts_leaf g
  | Filter.FTsBegin _ | Filter.FTsEnd _ => true
  | _ => false
  end.
Fixpoint nodupb (l : list (list N)) : bool :=
  match l with [] => true | x :: r => negb (existsb (str_eqb x) r) && nodupb r end.
Definition run_dom (cfg : run_cfg) : bool :=
  plain_sel (rc_accounts cfg) && plain_sel (rc_bal_acc cfg) && plain_sel (rc_grp_acc cfg)
  && plain_sel (rc_reg_acc cfg) && plain_sel (rc_eq_acc cfg)
  && nodupb (map kind_name (rc_targets cfg)) && nodupb (map export_name (rc_exports cfg)).
