(* Equity_spec.v — what the equity export must carry forward, stated directly on the
   postings of the source journal. Definitions only. *)
From Coq Require Import Sorted.
From TkModel Require Import Base Dec Acct Txn Balance Accept Equity Journal.
From TkSpec Require Import Balance_spec Journal_spec.
Local Open Scope Z_scope.

(* well-formed source: every posting has scale <= 28 and a proper account name *)
Definition txns_wf (ts : list txn) : Prop := Forall bpost_wf (txn_bposts ts).

(* the account selection of the export: no selectors = every account *)
Definition selected (ras : option (acct -> bool)) (a : acct) : bool :=
  match ras with None => true | Some m => m a end.

(* the balance that must be carried forward at (account, commodity): the exact sum of the
   source postings there when the account is selected, nothing otherwise *)
Definition carry_own (ras : option (acct -> bool)) (ps : list bpost) (k : key) : Z :=
  if selected ras (fst k) then spec_own ps k else 0.

(* the total of a commodity over all selected accounts *)
Definition carry_total (ras : option (acct -> bool)) (ps : list bpost) (c : str) : Z :=
  zsum (map amt28 (filter (fun p => str_eqb (bp_comm p) c && selected ras (bp_acc p)) ps)).

(* a balance that has to appear in the export *)
Definition carried_key (ras : option (acct -> bool)) (ps : list bpost) (k : key) : Prop :=
  selected ras (fst k) = true /\ spec_own ps k <> 0.

(* the exported transactions read as postings *)
Definition eq_bpost (p : eq_post) : bpost := mkBpost (ep_acc p) (ep_comm p) (ep_amt p).
Definition eq_bposts (es : list eq_txn) : list bpost :=
  flat_map (fun e => map eq_bpost (eq_all_posts e)) es.
Definition ep_key (p : eq_post) : key := (ep_acc p, ep_comm p).

(* what the equity account absorbs at key k *)
Definition absorbed (eqa : acct) (ras : option (acct -> bool)) (ps : list bpost) (k : key) : Z :=
  if acct_eqb (fst k) eqa then - carry_total ras ps (snd k) else 0.

(* C10_carry: a journal consisting of the export (postings eps) has, at every (account,
   commodity), exactly the selected balance of the source (postings ps); the equity account
   additionally holds the negated total of the commodity *)
Definition Carried (eqa : acct) (ras : option (acct -> bool)) (ps eps : list bpost) : Prop :=
  forall k, spec_own eps k = carry_own ras ps k + absorbed eqa ras ps k.

(* the header the export is dated with: a greatest header of the transaction set *)
Definition is_last (ts : list txn) (h : header) : Prop :=
  exists t, In t ts /\ t_hdr t = h /\ forall t', In t' ts -> header_cmp (t_hdr t') h <> Gt.

(* C10_shape, one exported transaction *)
Definition txn_shape (eqa : acct) (ras : option (acct -> bool)) (ts : list txn) (e : eq_txn) : Prop :=
  let ps := txn_bposts ts in
  (exists h, is_last ts h /\ e_inst e = h_inst h /\ e_off e = h_off h /\ e_uuid e = h_uuid h)
  (* postings: exactly the carried balances of this commodity, each once, by account *)
  /\ StronglySorted (fun a b => key_cmp a b = Lt) (map ep_key (e_posts e))
  /\ (forall k, In k (map ep_key (e_posts e)) <-> (snd k = e_comm e /\ carried_key ras ps k))
  /\ (forall p, In p (e_posts e) -> d28 (ep_amt p) = spec_own ps (ep_key p))
  (* balancing posting iff the carried balances do not cancel; otherwise the warning *)
  /\ match e_bal e with
     | None => carry_total ras ps (e_comm e) = 0 /\ e_warn e = true
     | Some b => ep_acc b = eqa /\ ep_comm b = e_comm e
                 /\ d28 (ep_amt b) = - carry_total ras ps (e_comm e)
                 /\ carry_total ras ps (e_comm e) <> 0 /\ e_warn e = false
     end.

(* C10_shape, the export: one transaction per commodity with a carried balance, ascending *)
Definition Shape (eqa : acct) (ras : option (acct -> bool)) (ts : list txn) (es : list eq_txn) : Prop :=
  StronglySorted (fun a b => str_cmp a b = Lt) (map e_comm es)
  /\ (forall c, In c (map e_comm es) <-> exists a, carried_key ras (txn_bposts ts) (a, c))
  /\ Forall (txn_shape eqa ras ts) es.

(* the postings of an accepted transaction as the balance sees them are the exported ones *)
Definition accepted_as_exported (e : eq_txn) (ps : list posting) : Prop :=
  map post_bpost ps = map eq_bpost (eq_all_posts e)
  /\ Forall (fun p => p_txn_amount p = p_amount p /\ p_txn_comm p = p_comm p) ps.

(* --- executable oracle on observed data ---------------------------------------------
   ps  = postings of the source transaction set,
   ets = the export parsed back as a journal: per transaction its instant and postings *)
Definition carry_at (eqa : acct) (ras : option (acct -> bool)) (ps eps : list bpost) (k : key) : bool :=
  spec_own eps k =? carry_own ras ps k + absorbed eqa ras ps k.
Definition check_keys (eqa : acct) (ps eps : list bpost) : list key :=
  map bp_key ps ++ map bp_key eps ++ map (fun p => (eqa, bp_comm p)) ps.
Definition carry_ok (eqa : acct) (ras : option (acct -> bool)) (ps eps : list bpost) : bool :=
  forallb (carry_at eqa ras ps eps) (check_keys eqa ps eps).

Fixpoint nodup_strs (l : list (list N)) : bool :=
  match l with
  | [] => true
  | x :: l' => negb (existsb (str_eqb x) l') && nodup_strs l'
  end.

(* every parsed-back transaction: one commodity; commodities pairwise different; dated at an
   instant of the source that no source transaction exceeds *)
Definition one_comm (ps : list bpost) : option (list N) :=
  match ps with
  | [] => None
  | p :: ps' => if forallb (fun q => str_eqb (bp_comm q) (bp_comm p)) ps' then Some (bp_comm p) else None
  end.
Definition dated_ok (insts : list Z) (i : Z) : bool :=
  existsb (Z.eqb i) insts && forallb (fun j => j <=? i) insts.
Definition export_ok (eqa : acct) (ras : option (acct -> bool)) (insts : list Z) (ps : list bpost)
           (ets : list (Z * list bpost)) : bool :=
  carry_ok eqa ras ps (flat_map snd ets)
  && forallb (fun et => dated_ok insts (fst et)) ets
  && forallb (fun et => match one_comm (snd et) with Some _ => true | None => false end) ets
  && nodup_strs (map (fun et => match one_comm (snd et) with Some c => c | None => [] end) ets).

(* what export_ok decides *)
Definition ExportOk (eqa : acct) (ras : option (acct -> bool)) (insts : list Z) (ps : list bpost)
           (ets : list (Z * list bpost)) : Prop :=
  Carried eqa ras ps (flat_map snd ets)
  /\ (forall et, In et ets -> In (fst et) insts /\ forall j, In j insts -> j <= fst et)
  /\ exists cs, NoDup cs
       /\ Forall2 (fun et c => snd et <> [] /\ Forall (fun p => bp_comm p = c) (snd et)) ets cs.

(* the same statement read off two observed balance reports: src = the source balance under
   the export's selector (non-zero, selected), exp = the full balance of the parsed-back export *)
Definition row_at (rows : list brow) (k : key) : option brow :=
  find (fun r => key_eqb (r_key r) k) rows.
Definition rows_carry_ok (eqa : acct) (src exp : list brow) : bool :=
  forallb (fun r => acct_eqb (r_acc r) eqa
                    || match row_at exp (r_key r) with
                       | Some r' => d28 (r_own r') =? d28 (r_own r)
                       | None => false
                       end) src
  && forallb (fun r' => acct_eqb (r_acc r') eqa || (d28 (r_own r') =? 0)
                        || match row_at src (r_key r') with Some _ => true | None => false end) exp.
Definition RowsCarried (eqa : acct) (src exp : list brow) : Prop :=
  (forall r, In r src -> r_acc r <> eqa ->
     exists r', In r' exp /\ r_key r' = r_key r /\ d28 (r_own r') = d28 (r_own r))
  /\ (forall r', In r' exp -> r_acc r' <> eqa -> d28 (r_own r') <> 0 ->
     exists r, In r src /\ r_key r = r_key r').

(* --- the configured equity account name -------------------------------------------------
   The export writes the name as the account of a posting line, so it has to be an account
   name of the journal grammar. eq_account_ok is that condition on the components (the name
   split at ':'), mirroring parser::is_valid_id (first component) / is_valid_sub_id (the
   others): non-empty, no white space and no ':' inside, the first character is not an ASCII
   digit (first component only), ':', '-', '_', U+00B7 or white space.
   (c.is_numeric() || is_valid_id_start_char(c)  =  ASCII digit or id start, because the only
   numeric characters is_valid_id_start_char excludes are the ASCII digits.)
   Settings::try_from rejects any other name when the equity export is a target (F20); the
   theorems of C10 are stated at AST level and hold for every eqa, the text-level tie assumes
   eq_account_ok. *)
(* is_ws = char::is_whitespace (Unicode White_Space): Journal.is_ws *)
Definition ascii_digit (c : N) : bool := is_digit c.
Definition id_start_ok (c : N) : bool :=
  negb (ascii_digit c || (c =? 58)%N || (c =? 45)%N || (c =? 95)%N || (c =? 183)%N || is_ws c).
Definition sub_id_start_ok (c : N) : bool := ascii_digit c || id_start_ok c.
Definition id_chars_ok (s : list N) : bool := forallb (fun c => negb ((c =? 58)%N || is_ws c)) s.
Definition comp_ok_b (start : N -> bool) (s : list N) : bool :=
  match s with [] => false | c :: _ => start c && id_chars_ok s end.
Definition eq_account_ok (a : acct) : bool :=
  match a with
  | [] => false
  | c0 :: rest => comp_ok_b id_start_ok c0 && forallb (comp_ok_b sub_id_start_ok) rest
  end.

(* The complete rule (F20, third repair 2cae891): Settings::try_from accepts the name iff
   AccountTreeNode::from accepts it AND the journal parser's own p_multi_part_id consumes it
   entirely, i.e. it is an account name of the journal grammar (Journal_spec.name_ok: first
   character an identifier start, every component a non-empty run of identifier characters)
   that the semantic layer accepts (Journal.acct_sem_ok).  eq_account_ok above is kept as the
   is_valid_id / is_valid_sub_id layer: on grammar names it adds only "no white space" (U+1680
   is an identifier character of the grammar and White_Space).
   = EquityText_spec.eq_acct_ok plus that white-space clause. *)
Definition eq_account_ok2 (a : acct) : bool := name_ok a && acct_sem_ok a && eq_account_ok a.
