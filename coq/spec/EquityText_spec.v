(* EquityText_spec.v — extension T02: what the text of the equity export must be when it is
   read as a journal (the syntax-level transactions that correspond to Equity.eq_raw_txn), the
   well-formedness of an export, and the observation made on the loaded text. Definitions only. *)
From TkModel Require Import Base Dec Acct Txn Balance Accept Equity Journal EquityText.
From TkSpec Require Import Balance_spec Equity_spec Journal_spec.
Local Open Scope Z_scope.

(* ------------------------------------------------------------------ the transactions the text denotes *)
(* comment texts: every metadata item's lines followed by an empty comment, then the warning
   lines `warn` (their wording is an input of the model, like md) iff the sum is zero *)
Definition eq_md_comments (md : list (list (list N))) : list (list N) :=
  flat_map (fun it => it ++ [[]]) md.
Definition eq_comments (md : list (list (list N))) (warn : list (list N)) (e : eq_txn) : list (list N) :=
  eq_md_comments md ++ (if e_warn e then warn else []).

(* header: time stamp and offset of the last transaction, no code, the description (the parser
   trims it at the end: see eq_desc_plain), no uuid / location / tags, the comments *)
Definition eq_header (md : list (list (list N))) (warn : list (list N)) (e : eq_txn) : header :=
  mkHeader (e_inst e) (e_off e) None (Some (trim_end (eq_desc e))) None None [] (eq_comments md warn e).

(* syntax level: postings in order (rows, then the balancing posting), each with an explicit
   amount and no comment; no amount-less last posting *)
Definition eq_ptxn (md : list (list (list N))) (warn : list (list N)) (e : eq_txn) : ptxn :=
  mkPTxn (eq_header md warn e) (map (fun p => (eq_raw_post p, @None (list N))) (eq_all_posts e)) None.

(* after the semantic layer *)
Definition eqt_posting (p : eq_post) : posting :=
  mkPosting (ep_acc p) (ep_comm p) (ep_amt p) (ep_amt p) false (ep_comm p).
Definition eq_jtxn (md : list (list (list N))) (warn : list (list N)) (e : eq_txn) : jtxn :=
  mkJTxn (eq_header md warn e) (map (fun p => mkJPost (eqt_posting p) None) (eq_all_posts e)).

(* the postings of loaded transactions as the balance sees them *)
Definition jtxns_bposts (ts : list jtxn) : list bpost :=
  flat_map (fun t => map (fun jp => post_bpost (jp_p jp)) (jt_posts t)) ts.

(* ------------------------------------------------------------------ well-formed export *)
(* commodity: none, or an identifier of the grammar that Commodity::from accepts (no white-space
   character: U+1680 is an identifier character and White_Space) = Journal_spec.comm_ok *)
Definition eq_comm_ok (c : list N) : bool := is_nil c || comm_ok c.
(* account names of the grammar (Journal_spec.name_ok) that the semantic layer accepts
   (Journal.acct_sem_ok); amounts inside the decimal type (96 bits, scale <= 28) *)
Definition eq_acct_ok (a : acct) : bool := name_ok a && acct_sem_ok a.
Definition eq_post_wf (p : eq_post) : bool :=
  eq_acct_ok (ep_acc p) && fits (ep_amt p) && eq_comm_ok (ep_comm p).
(* time stamp shown at a whole-minute offset, 4-digit year (Journal_spec.ts_ok, cf. F13);
   uuid text as Uuid's Display writes it; at least one posting *)
Definition eq_txn_wf (e : eq_txn) : bool :=
  ts_ok (e_inst e) (e_off e) && eq_comm_ok (e_comm e)
  && match e_uuid e with Some u => uuid_ok u | None => true end
  && negb (is_nil (eq_all_posts e)) && forallb eq_post_wf (eq_all_posts e).
(* metadata text lines are lines: written after "   ; " each is a comment line of the grammar
   (";" + blank + text without CR / LF; the empty text gives "   ; ") *)
Definition md_wf (md : list (list (list N))) : bool := forallb (forallb no_eol) md.
(* the warning lines: the same predicate - the block is well formed iff it is well formed as the
   lines of one metadata item *)
Definition warn_wf (warn : list (list N)) : bool := md_wf [warn].
Definition export_wf (md : list (list (list N))) (warn : list (list N)) (es : list eq_txn) : bool :=
  md_wf md && warn_wf warn && forallb eq_txn_wf es.

(* the description is read back unchanged iff it does not end in white space; the only way it
   could is a commodity name ending in U+1680 (an identifier character that is White_Space),
   which eq_comm_ok excludes (EquityText_proofs.eq_comm_ok_plain) *)
Definition eq_desc_plain (e : eq_txn) : bool := str_eqb (trim_end (e_comm e)) (e_comm e).

(* ------------------------------------------------------------------ well-formed source *)
(* conditions on the source transactions and the configuration under which the export is well
   formed (everything a loaded journal satisfies, cf. Journal_spec.journal_wf) *)
Definition src_post_ok (p : posting) : bool := eq_acct_ok (p_acc p) && eq_comm_ok (p_comm p).
Definition src_txn_ok (t : txn) : bool :=
  ts_ok (h_inst (t_hdr t)) (h_off (t_hdr t))
  && match h_uuid (t_hdr t) with Some u => uuid_ok u | None => true end
  && forallb src_post_ok (t_posts t).
(* every written amount is inside the decimal type (Dec.v computes on unbounded integers) *)
Definition amounts_fit (es : list eq_txn) : bool :=
  forallb (fun e => forallb (fun p => fits (ep_amt p)) (eq_all_posts e)) es.

(* ------------------------------------------------------------------ the observation on the loaded text *)
(* jts = the transactions load_journal yields for the export text: the equity transactions in
   canonical order, and their postings carry the selected balances of the source *)
Definition TextCarries (eqa : acct) (ras : option (acct -> bool)) (md : list (list (list N))) (warn : list (list N))
           (ts : list txn) (es : list eq_txn) (jts : list jtxn) : Prop :=
  jts = sort_by jtxn_leb (map (eq_jtxn md warn) es)
  /\ Carried eqa ras (txn_bposts ts) (jtxns_bposts jts).

(* ------------------------------------------------------------------ what the comment inputs can influence *)
(* a loaded transaction without its transaction comments (h_comments): everything else - time
   stamp, offset, code, description, uuid, location, tags, every posting with its comment - kept.
   T02_warn_irrelevant: md and warn reach the loaded export through this one component only. *)
Definition hdr_no_comments (h : header) : header :=
  mkHeader (h_inst h) (h_off h) (h_code h) (h_desc h) (h_uuid h) (h_loc h) (h_tags h) [].
Definition jt_no_comments (t : jtxn) : jtxn := mkJTxn (hdr_no_comments (jt_hdr t)) (jt_posts t).

(* ------------------------------------------------------------------ boolean oracle on an observed text *)
(* exact equality of syntax-level transactions as the export can contain them (units without
   opening / closing positions, no amount-less last posting) *)
Definition unit_plain_eqb (a b : option raw_unit) : bool :=
  match a, b with
  | None, None => true
  | Some u, Some v =>
      str_eqb (u_comm u) (u_comm v)
      && match u_opening u, u_opening v, u_closing u, u_closing v with
         | None, None, None, None => true
         | _, _, _, _ => false
         end
  | _, _ => false
  end.
Definition rpost_eqb (a b : raw_post * option (list N)) : bool :=
  acct_eqb (rp_acc (fst a)) (rp_acc (fst b)) && drepr_eqb (rp_amount (fst a)) (rp_amount (fst b))
  && unit_plain_eqb (rp_unit (fst a)) (rp_unit (fst b)) && opt_eqb str_eqb (snd a) (snd b).
Definition ptxn_eqb (a b : ptxn) : bool :=
  header_eqb (pt_hdr a) (pt_hdr b) && list_eqb rpost_eqb (pt_posts a) (pt_posts b)
  && match pt_last a, pt_last b with None, None => true | _, _ => false end.

(* the observed text, read by the grammar model, is exactly the transactions of the export
   (an empty export: the empty text) *)
Definition text_reads_as (cfg : pcfg) (md : list (list (list N))) (warn : list (list N)) (es : list eq_txn) (text : list N) : bool :=
  match es with
  | [] => is_nil text
  | _ => match parse_journal cfg text with
         | Ok pts => list_eqb ptxn_eqb pts (map (eq_ptxn md warn) es)
         | Err _ => false
         end
  end.
Definition TextReadsAs (cfg : pcfg) (md : list (list (list N))) (warn : list (list N)) (es : list eq_txn) (text : list N) : Prop :=
  match es with
  | [] => text = []
  | _ => parse_journal cfg text = Ok (map (eq_ptxn md warn) es)
  end.
