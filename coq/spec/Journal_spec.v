(* Journal_spec.v — C06: what "the same transactions" means, the well-formedness of
   transactions as the loader produces them, and boolean oracles. Definitions only. *)
From TkModel Require Import Base Dec Acct Txn Accept Journal.
Local Open Scope Z_scope.

(* ------------------------------------------------------------------ same transactions *)
(* equal value of two decimals (any scales): equal mantissas at the common scale *)
Definition dsame (a b : dec) : Prop :=
  let s := N.max (ds a) (ds b) in rescale a s = rescale b s.

Definition geo_same (a b : geo) : Prop :=
  g_lat a = g_lat b /\ g_lon a = g_lon b /\ g_alt a = g_alt b.

(* field by field; amounts and transaction amounts (closing prices) by value *)
Definition jpost_same (a b : jpost) : Prop :=
  p_acc (jp_p a) = p_acc (jp_p b) /\ p_comm (jp_p a) = p_comm (jp_p b)
  /\ dsame (p_amount (jp_p a)) (p_amount (jp_p b))
  /\ dsame (p_txn_amount (jp_p a)) (p_txn_amount (jp_p b))
  /\ p_total (jp_p a) = p_total (jp_p b) /\ p_txn_comm (jp_p a) = p_txn_comm (jp_p b)
  /\ jp_comment a = jp_comment b.
Definition jtxn_same (a b : jtxn) : Prop :=
  jt_hdr a = jt_hdr b /\ Forall2 jpost_same (jt_posts a) (jt_posts b).

(* boolean counterparts *)
Definition geo_eqb (a b : geo) : bool :=
  drepr_eqb (g_lat a) (g_lat b) && drepr_eqb (g_lon a) (g_lon b) && opt_eqb drepr_eqb (g_alt a) (g_alt b).
Definition header_eqb (a b : header) : bool :=
  (h_inst a =? h_inst b) && (h_off a =? h_off b)
  && opt_eqb str_eqb (h_code a) (h_code b) && opt_eqb str_eqb (h_desc a) (h_desc b)
  && opt_eqb str_eqb (h_uuid a) (h_uuid b) && opt_eqb geo_eqb (h_loc a) (h_loc b)
  && list_eqb str_eqb (h_tags a) (h_tags b) && list_eqb str_eqb (h_comments a) (h_comments b).
Definition jpost_same_b (a b : jpost) : bool :=
  acct_eqb (p_acc (jp_p a)) (p_acc (jp_p b)) && str_eqb (p_comm (jp_p a)) (p_comm (jp_p b))
  && deqb (p_amount (jp_p a)) (p_amount (jp_p b)) && deqb (p_txn_amount (jp_p a)) (p_txn_amount (jp_p b))
  && Bool.eqb (p_total (jp_p a)) (p_total (jp_p b)) && str_eqb (p_txn_comm (jp_p a)) (p_txn_comm (jp_p b))
  && opt_eqb str_eqb (jp_comment a) (jp_comment b).
Definition jtxn_same_b (a b : jtxn) : bool :=
  header_eqb (jt_hdr a) (jt_hdr b) && list_eqb jpost_same_b (jt_posts a) (jt_posts b).

(* exact (representation) equality, for model-versus-implementation comparisons *)
Definition jpost_eqb (a b : jpost) : bool :=
  acct_eqb (p_acc (jp_p a)) (p_acc (jp_p b)) && str_eqb (p_comm (jp_p a)) (p_comm (jp_p b))
  && drepr_eqb (p_amount (jp_p a)) (p_amount (jp_p b)) && drepr_eqb (p_txn_amount (jp_p a)) (p_txn_amount (jp_p b))
  && Bool.eqb (p_total (jp_p a)) (p_total (jp_p b)) && str_eqb (p_txn_comm (jp_p a)) (p_txn_comm (jp_p b))
  && opt_eqb str_eqb (jp_comment a) (jp_comment b).
Definition jtxn_eqb (a b : jtxn) : bool :=
  header_eqb (jt_hdr a) (jt_hdr b) && list_eqb jpost_eqb (jt_posts a) (jt_posts b).

(* The observation of the property on the implementation: export e1 of the loaded journal d1,
   re-loaded (d2) and re-exported (e2).  None = the re-load was rejected. *)
Definition fixpoint_obs_b (d1 : list jtxn) (e1 : list N) (second : option (list jtxn * list N)) : bool :=
  match second with
  | None => false
  | Some (d2, e2) => list_eqb jtxn_same_b d1 d2 && str_eqb e1 e2
  end.
Definition fixpoint_obs (d1 : list jtxn) (e1 : list N) (second : option (list jtxn * list N)) : Prop :=
  exists d2 e2, second = Some (d2, e2) /\ Forall2 jtxn_same d1 d2 /\ e1 = e2.

(* ------------------------------------------------------------------ well-formed transactions *)
(* = what load_journal can produce (proved: load_wf) and what the round trip needs *)
Definition no_eol (s : list N) : bool := forallb (fun c => negb ((c =? 10)%N || (c =? 13)%N)) s.

Definition ident_ok (s : list N) : bool :=
  match s with c :: _ => id_start c && forallb id_char s | [] => false end.
Definition name_ok (comps : list (list N)) : bool :=
  match comps with
  | (c :: _) :: _ => id_start c && forallb (fun p => negb (is_nil p) && forallb id_char p) comps
  | _ => false
  end.

(* a commodity: an identifier of the grammar that Commodity::from accepts *)
Definition comm_ok (s : list N) : bool := ident_ok s && comm_sem_ok s.

Definition code_ok (c : list N) : bool := forallb code_char c && str_eqb (trim c) c.
Definition desc_ok (d : list N) : bool := no_eol d && str_eqb (trim_end d) d.
Definition is_lhex (c : N) : bool := is_digit c || in_rng 97 102 c.
Definition uuid_ok (u : list N) : bool :=
  match take_uuid u with Some (u', []) => str_eqb u' u | _ => false end.
Definition geo_wf (g : geo) : bool :=
  fits (g_lat g) && fits (g_lon g) && match g_alt g with Some a => fits a | None => true end
  && geo_ok (g_lat g) (g_lon g) (g_alt g).
Definition tag_ok (t : list N) : bool := name_ok (split_on 58 t).

(* the instant is shown at a whole-minute offset (cf. finding F13), its civil year has 4 digits,
   and it lies in jiff's Timestamp range *)
Definition ts_ok (inst off : Z) : bool :=
  (off mod 60 =? 0) && (Z.abs off <=? max_off)
  && (let '(y, _, _) := civil_from_days ((inst + off * NS) / DAY_NS) in (0 <=? y) && (y <=? 9999))
  && (min_unix_s * NS <=? inst) && (inst <? (max_unix_s + 1) * NS).

Definition header_wf (h : header) : bool :=
  ts_ok (h_inst h) (h_off h)
  && match h_code h with Some c => code_ok c | None => true end
  && match h_desc h with Some d => desc_ok d | None => true end
  && match h_uuid h with Some u => uuid_ok u | None => true end
  && match h_loc h with Some g => geo_wf g | None => true end
  && forallb tag_ok (h_tags h)
  && Nat.eqb (length (distinct_strs (h_tags h))) (length (h_tags h))
  && forallb no_eol (h_comments h).

(* the stored transaction amount of a unit-priced posting is amount * p for a non-negative
   representable price p (the property's "price products are exact") *)
Definition unit_priced (p : posting) : Prop :=
  exists q, 0 <= dm q /\ fits q = true /\ p_txn_amount p = dmul (p_amount p) q.
Definition unit_priced_b (p : posting) : bool :=
  match ddiv (p_txn_amount p) (p_amount p) with
  | Some q => (0 <=? dm q) && fits q && drepr_eqb (dmul (p_amount p) q) (p_txn_amount p)
  | None => false
  end.

Definition posting_shape_b (p : posting) : bool :=
  name_ok (p_acc p) && acct_sem_ok (p_acc p) && fits (p_amount p) && negb (is_zero (p_amount p))
  && (is_nil (p_comm p) || comm_ok (p_comm p)).
Definition posting_price_b (p : posting) : bool :=
  if str_eqb (p_txn_comm p) (p_comm p)
  then negb (p_total p) && drepr_eqb (p_txn_amount p) (p_amount p)
  else comm_ok (p_comm p) && comm_ok (p_txn_comm p) && fits (p_txn_amount p)
       && (if p_total p
           then negb ((is_neg (p_txn_amount p) && negb (is_neg (p_amount p)))
                      || (is_neg (p_amount p) && negb (is_neg (p_txn_amount p))))
           else unit_priced_b p).
Definition jpost_wf (jp : jpost) : bool :=
  posting_shape_b (jp_p jp) && posting_price_b (jp_p jp)
  && match jp_comment jp with Some c => no_eol c | None => true end.

Definition jtxn_wf (t : jtxn) : bool :=
  header_wf (jt_hdr t)
  && negb (is_nil (jt_posts t)) && forallb jpost_wf (jt_posts t)
  && Nat.leb (length (distinct_strs (map (fun jp => p_txn_comm (jp_p jp)) (jt_posts t)))) 1
  && is_zero (txn_sum (map jp_p (jt_posts t))).

(* what the export says about a posting / a transaction, as syntax *)
Definition jpost_raw (jp : jpost) : raw_post :=
  let p := jp_p jp in
  mkRawPost (p_acc p) (p_amount p)
    (if is_nil (p_comm p) then None else
     Some (mkUnit (p_comm p) None
        (if is_nil (p_txn_comm p) || str_eqb (p_txn_comm p) (p_comm p) then None
         else if p_total p then Some (TotalPrice, p_txn_amount p, p_txn_comm p)
         else match ddiv (p_txn_amount p) (p_amount p) with
              | Some q => Some (UnitPrice, q, p_txn_comm p)
              | None => None
              end))).
Definition jtxn_ptxn (t : jtxn) : ptxn :=
  mkPTxn (jt_hdr t) (map (fun jp => (jpost_raw jp, jp_comment jp)) (jt_posts t)) None.

Fixpoint sorted_b {A} (leb : A -> A -> bool) (l : list A) : bool :=
  match l with
  | x :: ((y :: _) as l') => leb x y && sorted_b leb l'
  | _ => true
  end.
Definition journal_wf (ts : list jtxn) : bool :=
  negb (is_nil ts) && forallb jtxn_wf ts && sorted_b jtxn_leb ts.

(* ------------------------------------------------------------------ hypotheses of the image theorem *)
(* journal zone: a fixed whole-minute offset within jiff's range; default time inside the day *)
Definition cfg_ok (cfg : pcfg) : bool :=
  (cfg_off cfg mod 60 =? 0) && (Z.abs (cfg_off cfg) <=? max_off)
  && (0 <=? cfg_deftime cfg) && (cfg_deftime cfg <? DAY_NS).
(* exact decimal domain of the result: every amount and transaction amount is representable
   (the library rounds or panics otherwise; Dec.v computes on unbounded integers) *)
Definition in_domain (ts : list jtxn) : bool :=
  forallb (fun t => forallb (fun jp => fits (p_amount (jp_p jp)) && fits (p_txn_amount (jp_p jp))) (jt_posts t)) ts.
