(* Audit_spec.v — specification of C09, written independently of the model's algorithms:
   what a valid UUID text is, what "the pre-image of a set of strings" is (a sorted arrangement,
   every member followed by a newline), when producing a transaction set must fail, and boolean
   oracles deciding these on an observed output. Definitions only. *)
From Coq Require Import Permutation Sorted.
From TkModel Require Import Base Audit.

(* ------------------------------------------------------------------ *)
(* UUID text *)
Definition uuid_wf (u : list N) : Prop := length u = 32%nat /\ Forall (fun v => (v < 16)%N) u.

Definition is_hex (c : N) : bool := in_range 48 57 c || in_range 65 70 c || in_range 97 102 c.

(* true = a hex digit is expected at this position, false = '-' *)
Definition uuid_shape : list bool :=
  repeat true 8 ++ false :: repeat true 4 ++ false :: repeat true 4 ++ false :: repeat true 4
  ++ false :: repeat true 12.

Definition valid_uuid_text (s : list N) : Prop :=
  Forall2 (fun (h : bool) c => if h then is_hex c = true else c = ch_dash) uuid_shape s.

Definition lower_text (s : list N) : list N := map to_lower s.

(* ------------------------------------------------------------------ *)
(* pre-image of a collection of strings *)
Definition str_le (a b : list N) : Prop := str_cmp a b <> Gt.

(* every item followed by a newline *)
Definition lines_text (l : list (list N)) : list N := concat (map (fun s => s ++ [ch_nl]) l).

(* P is the checksum pre-image of the items: some sorted arrangement of them, newline-terminated *)
Definition is_preimage (items : list (list N)) (P : list N) : Prop :=
  exists l, Permutation l items /\ StronglySorted str_le l /\ P = lines_text l.

(* the canonical text of a UUID is its lower-case hyphenated form (specified by C09_case) *)
Definition uuid_texts (us : list (list N)) : list (list N) := map uuid_print us.

(* what the transaction-set metadata must be for the selected transactions' uuids *)
Definition Checksum_spec (H : list N -> list N) (sel : list (option (list N)))
           (r : res (option (N * list N))) : Prop :=
  match r with
  | Ok (Some (n, v)) =>
      exists us, sel = map Some us /\ NoDup us /\ n = N.of_nat (length sel) /\
                 exists P, is_preimage (uuid_texts us) P /\ v = H P
  | Ok None => False
  | Err _ => In None sel \/ ~ NoDup sel
  end.

(* ------------------------------------------------------------------ *)
(* observations and oracles *)

(* what is observed of one audit-mode run: the outcome class, the reported size, and the
   candidate pre-image (lines and bytes) whose digest — computed by an independent
   implementation of the configured algorithm — equals the reported value *)
Inductive c09_obs : Type :=
| ObsConfigErr                   (* configuration rejected (hash algorithm) *)
| ObsLoadErr                     (* journal rejected *)
| ObsSetErr                      (* producing the transaction set failed *)
| ObsNoChecksum                  (* no Txn Set Checksum item *)
| ObsChecksum (size : N) (lines : list (list N)) (P : list N).

Definition Observed_spec (sel : list (option (list N))) (o : c09_obs) : Prop :=
  match o with
  | ObsChecksum n lines P =>
      exists us, sel = map Some us /\ NoDup us /\ n = N.of_nat (length sel) /\
                 is_preimage (uuid_texts us) P
  | ObsSetErr => In None sel \/ ~ NoDup sel
  | _ => False
  end.

Definition is_none {A} (o : option A) : bool := match o with None => true | Some _ => false end.

Fixpoint mem_str (x : list N) (l : list (list N)) : bool :=
  match l with [] => false | y :: l' => str_eqb x y || mem_str x l' end.

Fixpoint nodup_strs (l : list (list N)) : bool :=
  match l with [] => true | x :: l' => negb (mem_str x l') && nodup_strs l' end.

Fixpoint sorted_b (l : list (list N)) : bool :=
  match l with
  | [] => true
  | x :: l' => match l' with
               | [] => true
               | y :: _ => cmp_leb (str_cmp x y) && sorted_b l'
               end
  end.

Definition occ (x : list N) (l : list (list N)) : nat := length (filter (str_eqb x) l).

(* same members with the same multiplicities *)
Definition same_multiset_b (a b : list (list N)) : bool :=
  forallb (fun x => Nat.eqb (occ x a) (occ x b)) (a ++ b).

Definition preimage_b (items lines : list (list N)) (P : list N) : bool :=
  sorted_b lines && same_multiset_b lines items && list_eqb N.eqb P (lines_text lines).

Definition the_somes {A} (l : list (option A)) : list A :=
  flat_map (fun o => match o with Some x => [x] | None => [] end) l.

(* the observation satisfies the specification for the selected uuids (all well-formed) *)
Definition observed_b (sel : list (option (list N))) (o : c09_obs) : bool :=
  let texts := map uuid_print (the_somes sel) in
  match o with
  | ObsChecksum n lines P =>
      negb (existsb is_none sel) && nodup_strs texts && N.eqb n (N.of_nat (length sel))
      && preimage_b texts lines P
  | ObsSetErr => existsb is_none sel || negb (nodup_strs texts)
  | _ => false
  end.

(* journal level: which outcome class the property demands *)
Definition journal_must_be_rejected (audit : bool) (raws : list (option (list N))) : Prop :=
  (audit = true /\ In None raws) \/ exists s, In (Some s) raws /\ ~ valid_uuid_text s.

Fixpoint valid_uuid_text_go (sh : list bool) (s : list N) : bool :=
  match sh, s with
  | [], [] => true
  | h :: sh', c :: s' => (if h then is_hex c else N.eqb c ch_dash) && valid_uuid_text_go sh' s'
  | _, _ => false
  end.
Definition valid_uuid_text_b (s : list N) : bool := valid_uuid_text_go uuid_shape s.

Definition journal_must_be_rejected_b (audit : bool) (raws : list (option (list N))) : bool :=
  (audit && existsb is_none raws)
  || existsb (fun o => match o with Some s => negb (valid_uuid_text_b s) | None => false end) raws.

(* ------------------------------------------------------------------ *)
(* selectors *)
Definition Selector_spec (H : list N -> list N) (audit equity : bool) (pats : list (list N)) (m : sel_md) : Prop :=
  match m with
  | SelNoItem => audit = false
  | SelAll => audit = true /\ pats = [] /\ equity = false
  | SelAllNonZero => audit = true /\ pats = [] /\ equity = true
  | SelSum v => audit = true /\ pats <> [] /\ exists P, is_preimage pats P /\ v = H P
  end.

(* observed: the item's kind, and for a digest the candidate pre-image as above *)
Inductive sel_obs : Type :=
| SObsNoItem | SObsAll | SObsAllNonZero
| SObsSum (lines : list (list N)) (P : list N).

Definition Sel_observed_spec (audit equity : bool) (pats : list (list N)) (o : sel_obs) : Prop :=
  match o with
  | SObsNoItem => audit = false
  | SObsAll => audit = true /\ pats = [] /\ equity = false
  | SObsAllNonZero => audit = true /\ pats = [] /\ equity = true
  | SObsSum lines P => audit = true /\ pats <> [] /\ is_preimage pats P
  end.

Definition is_nil {A} (l : list A) : bool := match l with [] => true | _ => false end.

Definition sel_observed_b (audit equity : bool) (pats : list (list N)) (o : sel_obs) : bool :=
  match o with
  | SObsNoItem => negb audit
  | SObsAll => audit && is_nil pats && negb equity
  | SObsAllNonZero => audit && is_nil pats && equity
  | SObsSum lines P => audit && negb (is_nil pats) && preimage_b pats lines P
  end.

(* items for which the pre-image determines the collection *)
Definition nl_free (s : list N) : Prop := ~ In ch_nl s.

(* the members of xs whose flag is set (the filter's selection), in order *)
Definition selected {A} (xs : list A) (flags : list bool) : list A :=
  map fst (filter (fun p : A * bool => snd p) (combine xs flags)).

(* how an accepted journal's uuids relate to what was written *)
Definition Accepted_uuid (audit : bool) (raw : option (list N)) (o : option (list N)) : Prop :=
  match raw with
  | Some s => valid_uuid_text s /\ exists u, o = Some u /\ uuid_wf u /\ uuid_print u = lower_text s
  | None => audit = false /\ o = None
  end.
