(* MetaText_spec.v — specification side of extension T04: an independent, line-based READER of the
   metadata text block (what a user — or a script — recovers from the text), the well-formedness
   conditions under which the block can be read back, what the block must contain
   (expected_items / Observed_spec) and the boolean oracle evaluated on the implementation's text.
   Definitions only. The item types, the fixed label texts and the padding rule come from the model. *)
From TkModel Require Import Base MetaText.
From TkModel Require Journal.
From TkSpec Require Journal_spec.

(* ------------------------------------------------------------------ text -> lines -> blocks *)
Definition rd_is_nl (c : N) : bool := (c =? 10)%N.
Definition rd_is_sp (c : N) : bool := (c =? 32)%N.

(* the text cut at every newline character *)
Fixpoint rd_lines (s : list N) : list (list N) :=
  match s with
  | [] => [[]]
  | c :: r =>
      if rd_is_nl c then [] :: rd_lines r
      else match rd_lines r with
           | l :: ls => (c :: l) :: ls
           | [] => [[c]]
           end
  end.

(* runs of non-empty lines, each CLOSED by an empty line (a block that is not closed is an error) *)
Fixpoint rd_blocks (ls : list (list N)) : option (list (list (list N))) :=
  match ls with
  | [] => Some []
  | l :: r =>
      match rd_blocks r with
      | None => None
      | Some bs =>
          match l with
          | [] => Some ([] :: bs)
          | _ :: _ => match bs with
                      | b :: bs' => Some ((l :: b) :: bs')
                      | [] => None
                      end
          end
      end
  end.

(* ------------------------------------------------------------------ one line *)
Fixpoint rd_strip (p s : list N) : option (list N) :=
  match p with
  | [] => Some s
  | a :: p' => match s with
               | b :: s' => if (a =? b)%N then rd_strip p' s' else None
               | [] => None
               end
  end.
Fixpoint rd_drop (p : N -> bool) (s : list N) : list N :=
  match s with c :: r => if p c then rd_drop p r else s | [] => [] end.
Fixpoint rd_span (p : N -> bool) (s : list N) : list N * list N :=
  match s with
  | c :: r => if p c then let (a, b) := rd_span p r in (c :: a, b) else ([], s)
  | [] => ([], [])
  end.

(* "<blanks><label> : <value>" for a KNOWN label: the value *)
Definition rd_label (k l : list N) : option (list N) := rd_strip (pad_left item_pad k ++ s_sep) l.
(* "<blanks><name> : <value>" for an unknown blank-free name (the hash algorithm): name and value *)
Definition rd_named (l : list N) : option (list N * list N) :=
  let (k, r) := rd_span (fun c => negb (rd_is_sp c)) (rd_drop rd_is_sp l) in
  match k with
  | [] => None
  | _ :: _ => match rd_strip s_sep r with Some v => Some (k, v) | None => None end
  end.
Definition rd_is_digit (c : N) : bool := (48 <=? c)%N && (c <=? 57)%N.
Definition rd_num (s : list N) : option N :=
  match s with
  | [] => None
  | _ :: _ => if forallb rd_is_digit s then Some (fold_left (fun a c => a * 10 + (c - 48))%N s 0%N) else None
  end.

(* ------------------------------------------------------------------ one block -> one item *)
Definition rd_price (a b c : list N) : option price_rec :=
  match rd_label s_time a, rd_label s_commodity b, rd_label s_value c with
  | Some t, Some src, Some v =>
      let (rate, r) := rd_span (fun x => negb (rd_is_sp x)) v in
      match r with
      | sp :: tgt =>           (* the blank that stopped the span *)
          Some (mkPR (if str_eqb t s_at_txn then None else Some t) src
                     (if str_eqb rate s_dash then None else Some rate) tgt)
      | [] => None
      end
  | _, _, _ => None
  end.
Fixpoint rd_more_prices (ls : list (list N)) : option (list price_rec) :=
  match ls with
  | [] => Some []
  | sep :: a :: b :: c :: r =>
      if str_eqb sep price_sep then
        match rd_price a b c, rd_more_prices r with
        | Some p, Some ps => Some (p :: ps)
        | _, _ => None
        end
      else None
  | _ => None
  end.

Definition rd_item (b : list (list N)) : option item :=
  match b with
  | [] => None
  | l0 :: rest =>
      if str_eqb l0 s_txn_set then
        match rest with
        | [a; z] => match rd_named a, rd_label s_set_size z with
                    | Some (algo, v), Some zs => match rd_num zs with
                                                 | Some n => Some (ITxnSet n (mkCk algo v))
                                                 | None => None
                                                 end
                    | _, _ => None
                    end
        | _ => None
        end
      else if str_eqb l0 s_acc_sel then
        match rest with
        | [a] => match rd_named a with Some (algo, v) => Some (ISel (mkCk algo v)) | None => None end
        | _ => None
        end
      else if str_eqb l0 s_zone then
        match rest with
        | [a] => match rd_label s_tz_name a with Some nm => Some (IZone nm) | None => None end
        | _ => None
        end
      else if str_eqb l0 s_git then
        match rest with
        | [c; r; d; s; m] =>
            match rd_label s_commit c, rd_label s_reference r, rd_label s_directory d,
                  rd_label s_suffix s, rd_label s_message m with
            | Some c', Some r', Some d', Some s', Some m' =>
                match rd_strip s_dot s' with
                | Some sfx => Some (IGit (mkGit c' (if str_eqb r' s_fixed then None else Some r') d' sfx m'))
                | None => None
                end
            | _, _, _, _, _ => None
            end
        | _ => None
        end
      else if str_eqb l0 s_prices then
        match rest with
        | a :: b' :: c :: more =>
            match rd_price a b' c, rd_more_prices more with
            | Some p, Some ps => Some (IPrices (p :: ps))
            | _, _ => None
            end
        | _ => None
        end
      else if str_eqb l0 s_filter then Some (IFilter b)
      else None
  end.

Fixpoint rd_all {A B} (f : A -> option B) (l : list A) : option (list B) :=
  match l with
  | [] => Some []
  | x :: r => match f x, rd_all f r with Some y, Some ys => Some (y :: ys) | _, _ => None end
  end.

(* the reader: text of Metadata::text -> items *)
Definition read_lines (ls : list (list N)) : option (list item) :=
  match rd_blocks ls with Some bs => rd_all rd_item bs | None => None end.
Definition read_meta (text : list N) : option (list item) :=
  match text with
  | [] => Some []
  | _ :: _ => read_lines (rd_lines text)
  end.

(* ------------------------------------------------------------------ well-formed items *)
Definition nl_free (s : list N) : bool := forallb (fun c => negb (rd_is_nl c)) s.
Definition sp_free (s : list N) : bool := forallb (fun c => negb (rd_is_sp c)) s.
Definition nonempty {A} (s : list A) : bool := match s with [] => false | _ :: _ => true end.
(* a label-like name: not empty, no blank, no newline *)
Definition name_ok (s : list N) : bool := nonempty s && sp_free s && nl_free s.
Definition ck_ok (ck : checksum) : bool := name_ok (ck_algo ck) && nl_free (ck_value ck).
Definition price_ok (r : price_rec) : bool :=
  match pr_time r with Some t => nl_free t && negb (str_eqb t s_at_txn) | None => true end
  && nl_free (pr_source r)
  && match pr_rate r with Some v => nl_free v && sp_free v && negb (str_eqb v s_dash) | None => true end
  && nl_free (pr_target r).

(* what each field must not contain for the block to be readable:
   - no field contains a newline — EXCEPT the git message, which may be any text (it is folded into one line);
   - the algorithm name is not empty and has no blank;
   - a git reference is not the literal text "FIXED by commit", a price time not "At txn time",
     a rate not "-" and blank-free;
   - a filter description starts with the line "Filter" and has no empty line;
   - a price item has at least one record *)
Definition item_wf (it : item) : bool :=
  match it with
  | ITxnSet _ ck => ck_ok ck
  | ISel ck => ck_ok ck
  | IZone nm => nl_free nm
  | IFilter ls =>
      match ls with
      | l0 :: _ => str_eqb l0 s_filter && forallb (fun l => nonempty l && nl_free l) ls
      | [] => false
      end
  | IGit g =>
      nl_free (g_commit g)
      && match g_reference g with Some r => nl_free r && negb (str_eqb r s_fixed) | None => true end
      && nl_free (g_dir g) && nl_free (g_suffix g)
  | IPrices rs => nonempty rs && forallb price_ok rs
  end.

(* what the text keeps of an item: everything, except that the git message is folded into one line *)
Definition norm_item (it : item) : item :=
  match it with
  | IGit g => IGit (mkGit (g_commit g) (g_reference g) (g_dir g) (g_suffix g) (one_line (g_message g)))
  | _ => it
  end.
(* items that are printed as they are *)
Definition item_exact (it : item) : Prop :=
  match it with IGit g => one_line (g_message g) = g_message g | _ => True end.

(* ------------------------------------------------------------------ what the block must contain *)
(* git: the input was a git commit (its fields as they must appear); cs: audit mode — the size of
   the selected set, the configured algorithm and the hexadecimal digest of the set (computed
   independently); flt: a filter was applied — its description *)
Record expect : Type := mkExp {
  e_git : option git_ref; e_cs : option (N * checksum); e_flt : option (list (list N)) }.

Definition expected_items (e : expect) : list item :=
  opt_list (option_map IGit (e_git e))
  ++ opt_list (option_map (fun nc => ITxnSet (fst nc) (snd nc)) (e_cs e))
  ++ opt_list (option_map IFilter (e_flt e)).

(* obs = the metadata text of a transaction set (None: the set has no metadata):
   read by the reader it is exactly: the git item iff git input, then the checksum item iff audit mode
   (with the expected algorithm, value and size), then the filter item iff a filter was applied *)
Definition Observed_spec (e : expect) (obs : option (list N)) : Prop :=
  match obs with
  | None => e_git e = None /\ e_cs e = None /\ e_flt e = None
  | Some text => read_meta text = Some (expected_items e)
  end.

Definition opt_strb (a b : option (list N)) : bool := opt_eqb str_eqb a b.
Definition ck_eqb (a b : checksum) : bool := str_eqb (ck_algo a) (ck_algo b) && str_eqb (ck_value a) (ck_value b).
Definition git_eqb (a b : git_ref) : bool :=
  str_eqb (g_commit a) (g_commit b) && opt_strb (g_reference a) (g_reference b) && str_eqb (g_dir a) (g_dir b)
  && str_eqb (g_suffix a) (g_suffix b) && str_eqb (g_message a) (g_message b).
Definition price_eqb (a b : price_rec) : bool :=
  opt_strb (pr_time a) (pr_time b) && str_eqb (pr_source a) (pr_source b)
  && opt_strb (pr_rate a) (pr_rate b) && str_eqb (pr_target a) (pr_target b).
Definition item_eqb (a b : item) : bool :=
  match a, b with
  | ITxnSet n x, ITxnSet m y => (n =? m)%N && ck_eqb x y
  | ISel x, ISel y => ck_eqb x y
  | IZone x, IZone y => str_eqb x y
  | IFilter x, IFilter y => list_eqb str_eqb x y
  | IGit x, IGit y => git_eqb x y
  | IPrices x, IPrices y => list_eqb price_eqb x y
  | _, _ => false
  end.

Definition observed_b (e : expect) (obs : option (list N)) : bool :=
  match obs with
  | None => negb (is_some (e_git e)) && negb (is_some (e_cs e)) && negb (is_some (e_flt e))
  | Some text => match read_meta text with
                 | Some items => list_eqb item_eqb items (expected_items e)
                 | None => false
                 end
  end.

(* the head of a report (everything before the title), read the same way: the selector item iff audit
   mode, the zone item, the price item iff there are records — in this order *)
Definition expected_head_items (sel : option checksum) (zone : option (list N)) (prices : list price_rec) : list item :=
  opt_list (option_map ISel sel) ++ opt_list (option_map IZone zone)
  ++ match prices with [] => [] | _ :: _ => [IPrices prices] end.

(* the lines before the title line; the empty lines that end the head are replaced by the one that closes
   the last block *)
Fixpoint rd_until (t : list N) (ls : list (list N)) : list (list N) :=
  match ls with
  | [] => []
  | l :: r => if str_eqb l t then [] else l :: rd_until t r
  end.
Fixpoint rd_drop_empty (ls : list (list N)) : list (list N) :=
  match ls with
  | [] :: r => rd_drop_empty r
  | _ => ls
  end.
Definition read_head (title text : list N) : option (list item) :=
  match rev (rd_drop_empty (rev (rd_until title (rd_lines text)))) with
  | [] => Some []
  | core => read_lines (core ++ [[]])
  end.
Definition Head_observed_spec (sel : option checksum) (zone : option (list N)) (prices : list price_rec)
           (title text : list N) : Prop :=
  read_head title text = Some (expected_head_items sel zone prices).
Definition head_observed_b (sel : option checksum) (zone : option (list N)) (prices : list price_rec)
           (title text : list N) : bool :=
  match read_head title text with
  | Some items => list_eqb item_eqb items (expected_head_items sel zone prices)
  | None => false
  end.

(* the expectation that belongs to given inputs: the git reference as it is shown (message trimmed), the size and
   the checksum of the selected set under the configured algorithm, the description of the applied filter *)
Definition norm_git (g : git_ref) : git_ref :=
  mkGit (g_commit g) (g_reference g) (g_dir g) (g_suffix g) (one_line (g_message g)).
Definition expect_of (git : option git_ref) (cs : option (N * checksum)) (flt : option (list (list N))) : expect :=
  mkExp (option_map norm_git git) cs flt.

(* the items a report writes itself, between the set's metadata and its title *)
Definition head_items (k : report_kind) (sel : option item) (zone : list N) (prices : list price_rec) : list item :=
  opt_list sel
  ++ match k, prices with RBalance, [] => [] | _, _ => [IZone zone] end
  ++ match prices with [] => [] | _ :: _ => [IPrices prices] end.

(* ------------------------------------------------------------------ lines that are lines (LF and CR free) *)
(* every field of an item EXCEPT the git message is free of line breaks (Journal_spec.no_eol: the predicate of
   EquityText_spec.md_wf) *)
Definition eolf (s : list N) : bool := Journal_spec.no_eol s.
Definition eolf_opt (o : option (list N)) : bool := match o with Some s => eolf s | None => true end.
Definition item_eol_free (it : item) : bool :=
  match it with
  | ITxnSet _ ck | ISel ck => eolf (ck_algo ck) && eolf (ck_value ck)
  | IZone nm => eolf nm
  | IFilter ls => forallb eolf ls
  | IGit g => eolf (g_commit g) && eolf_opt (g_reference g) && eolf (g_dir g) && eolf (g_suffix g)
  | IPrices rs => forallb (fun r => eolf_opt (pr_time r) && eolf (pr_source r) && eolf_opt (pr_rate r) && eolf (pr_target r)) rs
  end.
(* what was asked of git and what it answered, the commit title left out: ANY text *)
Definition git_in_eol_free (g : git_in) : bool :=
  eolf (gi_sel g) && eolf (gi_id g) && eolf (gi_dir g) && eolf (gi_suffix g).
