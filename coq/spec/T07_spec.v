(* T07_spec.v — notions used by the statements of coq/props/T07.v.  Definitions only. *)
From TkModel Require Import Base Dec Acct Txn Accept Journal Balance Register Regex T06_run T07_run.
From TkModel Require Charts.

(* the observable outcome of two runs is the same: the same output, or both fail (a failed run prints
   nothing and writes nothing: T06_error_no_output) *)
Definition same_outcome {A} (a b : res A) : Prop :=
  match a, b with
  | Ok x, Ok y => x = y
  | Err _, Err _ => True
  | _, _ => False
  end.

(* pairwise distinguishable by (instant, code, description, uuid): C04's distinct_hdrs on the loaded
   transactions *)
Definition distinct_jhdrs (l : list jtxn) : Prop :=
  NoDup l /\ forall a b, In a l -> In b l -> header_cmp (jt_hdr a) (jt_hdr b) = Eq -> a = b.

(* the same run with strict mode off *)
Definition lax (c : run7) : run7 :=
  mkRun7 (r7_base c) (r7_ext c) false (r7_charts c) (r7_accounts c) (r7_bal c) (r7_grp c) (r7_reg c) (r7_eq c).

(* the results of the per-file parser on the selected files *)
Definition file_results (c : run7) (files : list (list (list N) * list N)) : res (list (list jtxn)) :=
  mapM (fun f => parse_file (rc_journal (r7_base c)) (snd f)) (selected7 c files).

(* the syntax-level transactions (grammar only) of the selected files *)
Definition file_ptxns (c : run7) (files : list (list (list N) * list N)) : res (list (list ptxn)) :=
  mapM (fun f => parse_journal (rc_journal (r7_base c)) (snd f)) (selected7 c files).
