(* Tstamp_spec.v — what a time stamp text MEANS (independent of the parser):
   an abstract syntax for the three notations, its rendering, the instant and offset it
   denotes under a configuration, the positional value of a fraction, and boolean oracles
   that decide the specification on an observed result. Definitions only. *)
From Coq Require Import Sorted.
From TkModel Require Import Base Dec Acct Txn Tstamp.
Local Open Scope Z_scope.

(* ------------------------------------------------------------------ calendar, textbook form *)
Definition spec_leap (y : Z) : bool :=
  ((y mod 4 =? 0) && negb (y mod 100 =? 0)) || (y mod 400 =? 0).
(* leap days in the years 1 .. y-1 *)
Definition leaps_before (y : Z) : Z := (y - 1) / 4 - (y - 1) / 100 + (y - 1) / 400.
(* days before the first of month m in a common year *)
Definition cum_days (m : Z) : Z :=
  nth (Z.to_nat (m - 1)) [0; 31; 59; 90; 120; 151; 181; 212; 243; 273; 304; 334] 0.
Definition month_len (y m : Z) : Z :=
  nth (Z.to_nat (m - 1)) [31; (if spec_leap y then 29 else 28); 31; 30; 31; 30; 31; 31; 30; 31; 30; 31] 0.
Definition spec_date_valid (y m d : Z) : bool :=
  (1 <=? m) && (m <=? 12) && (1 <=? d) && (d <=? month_len y m).
(* days from 1970-01-01 to y-m-d (proleptic Gregorian) *)
Definition spec_days (y m d : Z) : Z :=
  365 * (y - 1970) + (leaps_before y - leaps_before 1970)
  + cum_days m + (if spec_leap y && (2 <? m) then 1 else 0) + (d - 1).

(* lexicographic order of dates *)
Definition date_lt (a b : Z * Z * Z) : Prop :=
  let '(y1, m1, d1) := a in let '(y2, m2, d2) := b in
  y1 < y2 \/ (y1 = y2 /\ (m1 < m2 \/ (m1 = m2 /\ d1 < d2))).

(* ------------------------------------------------------------------ abstract syntax *)
Inductive zspec : Type :=
| ZZulu
| ZOff (neg : bool) (hh mm : Z).

Inductive ts_ast : Type :=
| TsDate (y m d : Z)
| TsLocal (y m d h mi s : Z) (frac : option (list N))
| TsZoned (y m d h mi s : Z) (frac : option (list N)) (z : zspec).

Definition render_date (y m d : Z) : str := pad4 y ++ ch_minus :: pad2 m ++ ch_minus :: pad2 d.
Definition render_frac (f : option (list N)) : str :=
  match f with None => [] | Some ds => ch_dot :: ds end.
Definition render_time (h mi s : Z) (f : option (list N)) : str :=
  ch_T :: pad2 h ++ ch_colon :: pad2 mi ++ ch_colon :: pad2 s ++ render_frac f.
Definition render_zone (z : zspec) : str :=
  match z with
  | ZZulu => [ch_Z]
  | ZOff neg hh mm => (if neg then ch_minus else ch_plus) :: pad2 hh ++ ch_colon :: pad2 mm
  end.
Definition render (a : ts_ast) : str :=
  match a with
  | TsDate y m d => render_date y m d
  | TsLocal y m d h mi s f => render_date y m d ++ render_time h mi s f
  | TsZoned y m d h mi s f z => render_date y m d ++ render_time h mi s f ++ render_zone z
  end.

(* ------------------------------------------------------------------ meaning *)
(* positional value of the fraction digits in nanoseconds: d1*10^8 + d2*10^7 + ... *)
Fixpoint frac_pos (ds : list N) (k : Z) : Z :=
  match ds with
  | [] => 0
  | c :: r => digit_val c * 10 ^ k + frac_pos r (k - 1)
  end.
Definition spec_frac (f : option (list N)) : Z :=
  match f with None => 0 | Some ds => frac_pos ds 8 end.

Definition zspec_off (z : zspec) : Z :=
  match z with
  | ZZulu => 0
  | ZOff neg hh mm => (if neg then -1 else 1) * (hh * 3600 + mm * 60)
  end.

(* nanoseconds from the epoch to the civil time read as UTC *)
Definition spec_civil_ns (y m d h mi s ns : Z) : Z :=
  (spec_days y m d * 86400 + h * 3600 + mi * 60 + s) * NS + ns.

(* the civil time an AST names (date only: the configured default time) *)
Definition ast_civil (cfg : tscfg) (a : ts_ast) : civil :=
  match a with
  | TsDate y m d => mkCivil y m d (cfg_h cfg) (cfg_mi cfg) (cfg_s cfg) (cfg_ns cfg)
  | TsLocal y m d h mi s f => mkCivil y m d h mi s (spec_frac f)
  | TsZoned y m d h mi s f _ => mkCivil y m d h mi s (spec_frac f)
  end.
(* offset used to turn that civil time into an instant *)
Definition zone_conv_off (z : jzone) (c : civil) : Z :=
  match z with ZFixed o => o | ZNamed nz => nz_civil nz c end.
Definition ast_conv_off (cfg : tscfg) (a : ts_ast) : Z :=
  match a with
  | TsZoned _ _ _ _ _ _ _ z => zspec_off z
  | _ => zone_conv_off (cfg_zone cfg) (ast_civil cfg a)
  end.
Definition civil_ns (c : civil) : Z :=
  spec_civil_ns (cv_y c) (cv_m c) (cv_d c) (cv_h c) (cv_mi c) (cv_s c) (cv_ns c).
(* THE instant of a time stamp: civil time minus offset *)
Definition spec_inst (cfg : tscfg) (a : ts_ast) : Z :=
  civil_ns (ast_civil cfg a) - ast_conv_off cfg a * NS.
(* the offset the time stamp carries afterwards *)
Definition spec_off (cfg : tscfg) (a : ts_ast) : Z :=
  match a with
  | TsZoned _ _ _ _ _ _ _ z => zspec_off z
  | _ => match cfg_zone cfg with
         | ZFixed o => o
         | ZNamed nz => nz_inst nz (spec_inst cfg a)
         end
  end.

(* ------------------------------------------------------------------ well-formedness *)
Definition frac_wf (f : option (list N)) : Prop :=
  match f with
  | None => True
  | Some ds => Forall (fun c => is_digit c = true) ds /\ (1 <= length ds <= 9)%nat
  end.
Definition frac_wfb (f : option (list N)) : bool :=
  match f with
  | None => true
  | Some ds => forallb is_digit ds && (1 <=? length ds)%nat && (length ds <=? 9)%nat
  end.
Definition zspec_wfb (z : zspec) : bool :=
  match z with
  | ZZulu => true
  | ZOff _ hh mm => (0 <=? hh) && (hh <=? 99) && (0 <=? mm) && (mm <=? 99) && (hh * 3600 + mm * 60 <=? OFF_MAX)
  end.
Definition date_wfb (y m d : Z) : bool := (0 <=? y) && (y <=? 9999) && spec_date_valid y m d.
Definition hms_wfb (h mi s : Z) : bool :=
  (0 <=? h) && (h <=? 23) && (0 <=? mi) && (mi <=? 59) && (0 <=? s) && (s <=? 59).
Definition ast_wfb (a : ts_ast) : bool :=
  match a with
  | TsDate y m d => date_wfb y m d
  | TsLocal y m d h mi s f => date_wfb y m d && hms_wfb h mi s && frac_wfb f
  | TsZoned y m d h mi s f z => date_wfb y m d && hms_wfb h mi s && frac_wfb f && zspec_wfb z
  end.
Definition ast_wf (a : ts_ast) : Prop := ast_wfb a = true.

Definition zone_wf (z : jzone) : Prop :=
  match z with
  | ZFixed o => Z.abs o <= OFF_MAX
  | ZNamed nz => forall c, Z.abs (nz_civil nz c) <= OFF_MAX
  end.
Definition cfg_wf (cfg : tscfg) : Prop :=
  ts_time_ok (cfg_h cfg) (cfg_mi cfg) (cfg_s cfg) (cfg_ns cfg) = true /\ zone_wf (cfg_zone cfg).

(* inside the range of instants the library can hold (with one second to spare) *)
Definition spec_in_rangeb (cfg : tscfg) (a : ts_ast) : bool :=
  (TS_MIN_SEC * NS <=? spec_inst cfg a) && (spec_inst cfg a <? TS_MAX_SEC * NS).

(* what may follow the rendered text without being read as part of it *)
Definition head_is (p : N -> bool) (s : str) : bool := match s with c :: _ => p c | [] => false end.
Definition zone_start (c : N) : bool := (c =? ch_Z)%N || (c =? ch_plus)%N || (c =? ch_minus)%N.
Definition sep_okb (a : ts_ast) (rest : str) : bool :=
  match a with
  | TsDate _ _ _ => negb (head_is (fun c => (c =? ch_T)%N) rest)
  | TsLocal _ _ _ _ _ _ None => negb (head_is (fun c => (c =? ch_dot)%N || zone_start c) rest)
  | TsLocal _ _ _ _ _ _ (Some ds) =>
      negb (head_is zone_start rest) && ((length ds =? 9)%nat || negb (head_is is_digit rest))
  | TsZoned _ _ _ _ _ _ _ _ => true
  end.

(* ------------------------------------------------------------------ canonical representation *)
(* the time zone a time stamp carries: the written offset, else the configured zone *)
Definition ast_zone (cfg : tscfg) (a : ts_ast) : jzone :=
  match a with
  | TsZoned _ _ _ _ _ _ _ z => ZFixed (zspec_off z)
  | _ => cfg_zone cfg
  end.

(* THE canonical pair of an instant: quotient and remainder of the truncated division by 10^9 *)
Definition ts_canon (i : Z) : jts := mkJts (Z.quot i NS) (Z.rem i NS).

(* a (second, nanosecond) pair is canonical when it is sign-consistent: the invariant under
   which the library's comparison of pairs is the comparison of instants (and under which the
   pair is determined by the instant: ts_canonical_unique) *)
Definition ts_normalb (t : jts) : bool :=
  (Z.abs (j_ns t) <? NS) && ((j_sec t <=? 0) || (0 <=? j_ns t)) && ((0 <=? j_sec t) || (j_ns t <=? 0)).
Definition ts_normal (t : jts) : Prop := ts_normalb t = true.

(* where the library layer alone (civil time -> pair) yields a NON-canonical pair, the class of
   the former finding F17 ("epoch-mixed-sign"): a fractional second, and the civil date in the
   written offset on the other side of 1970-01-01 than the instant *)
Definition epoch_mixedb (c : civil) (off : Z) : bool :=
  negb (cv_ns c =? 0) &&
  (let day := spec_days (cv_y c) (cv_m c) (cv_d c) in
   let sec := day * 86400 + cv_h c * 3600 + cv_mi c * 60 + cv_s c - off in
   if day <? 0 then 0 <=? sec else sec <? 0).

(* ------------------------------------------------------------------ oracles *)
(* observed result of the implementation for one time stamp: None = rejected,
   Some (instant ns, offset s) *)
Definition ts_oracle (cfg : tscfg) (a : ts_ast) (obs : option (Z * Z)) : bool :=
  match obs with
  | Some (ns, off) => (ns =? spec_inst cfg a) && (off =? spec_off cfg a)
  | None => negb (spec_in_rangeb cfg a)
  end.

(* observed order of a transaction set: non-decreasing in header_cmp, i.e. by instant first *)
Fixpoint order_oracle (l : list header) : bool :=
  match l with
  | a :: ((b :: _) as l') => cmp_leb (header_cmp a b) && order_oracle l'
  | _ => true
  end.
Definition hdr_le (a b : header) : Prop := header_cmp a b <> Gt.
