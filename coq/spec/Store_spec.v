(* Store_spec.v — "files of the selected commit that lie under the configured directory
   and carry the configured file extension" *)
From TkModel Require Import Base Store.

(* p = d ++ rest with rest non-empty: the file lies in d or below *)
Definition under (d p : list (list N)) : Prop := exists rest, rest <> [] /\ p = d ++ rest.

(* the file name is  stem ++ "." ++ ext  with a non-empty stem, and ext has no dot *)
Definition named_with_ext (ext name : list N) : Prop :=
  exists stem, stem <> [] /\ name = stem ++ dot :: ext.

Definition wanted (dir : list (list N)) (ext : list N) (e : entry) : Prop :=
  (en_kind e = Blob \/ en_kind e = BlobExec)
  /\ under dir (en_path e)
  /\ named_with_ext ext (file_name (en_path e)).

Definition no_links (t : list entry) : Prop := forall e, In e t -> en_kind e <> Link.
Definition ext_ok (ext : list N) : Prop := ~ In dot ext.
Definition paths_ok (t : list entry) : Prop := forall e, In e t -> en_path e <> [].
