(* T05_grp_spec.v — what the BALANCE-GROUP text must show under price conversion, stated on the price file as written,
   the transactions, the group-by key and the report zone: the text is the title lines followed by one block per
   period; the blocks come in ascending order of their period keys, each key once; a period has a block exactly when
   the selector lists a row for it; the block of a period is a balance text (T05_spec.bal_text_shows) titled by the
   period key whose figures read back as the rounded exact sums of amount x documented rate over exactly the
   transactions of that period.  Definitions only. *)
From TkModel Require Import Base Dec Acct Txn Balance Round Price Time Group ReportText T05_report.
From TkSpec Require Import Balance_spec Price_spec ReportText_spec T05_spec Group_spec.

Definition balgrp_text_spec (title : list N) (sc : scale_cfg) (gb : group_by) (tzoff : Z -> Z)
           (lk : lookup) (rc : option (list N)) (f : list pentry)
           (names : list (list (list N))) (input : list txn) (text : list N) : Prop :=
  let txns := sort_txns input in
  let kf := txn_key gb tzoff in
  exists blocks : list (list N * list N),              (* (period key, the text of its block) *)
    text = title_lines title ++ concat (map snd blocks)
    /\ Sorted.StronglySorted str_lt (map fst blocks)
    /\ (forall t, In t txns ->
          (In (kf t) (map fst blocks)
           <-> listed_keys names (spec_bposts lk rc f (period_members kf txns (kf t))) <> []))
    /\ Forall (fun kb =>
                 (exists t, In t txns /\ kf t = fst kb)
                 /\ let ps := spec_bposts lk rc f (period_members kf txns (fst kb)) in
                    bal_text_shows (fst kb) sc ps (listed_keys names ps) (snd kb)) blocks.
