(* Filter_spec.v — what a transaction filter is documented to select, written directly
   (propositions over exact values), independent of Filter.eval; the boolean oracle that
   decides it on an observed selection; well-formedness. Definitions only. *)
From TkModel Require Import Base Dec Acct Txn Filter.
Local Open Scope Z_scope.

(* decimals are compared by their exact value; d28 d = value * 10^28 *)
Definition lat_spec (south north lat : dec) : Prop :=
  d28 south <= d28 lat /\ d28 lat <= d28 north.

(* inclusive; wraps across the antimeridian only when west is greater than east *)
Definition lon_spec (west east lon : dec) : Prop :=
  (d28 west <= d28 east -> d28 west <= d28 lon /\ d28 lon <= d28 east) /\
  (d28 east < d28 west -> d28 west <= d28 lon \/ d28 lon <= d28 east).

Definition box_spec (s w n e : dec) (g : geo) : Prop :=
  lat_spec s n (g_lat g) /\ lon_spec w e (g_lon g).

(* the documented predicate of a filter definition *)
Fixpoint sat (re : N -> list N -> bool) (f : tfilter) (t : ftxn) : Prop :=
  match f with
  | FTrue => True
  | FFalse => False
  | FAnd fs => (fix all (l : list tfilter) : Prop :=
                  match l with [] => True | g :: l' => sat re g t /\ all l' end) fs
  | FOr fs => (fix any (l : list tfilter) : Prop :=
                 match l with [] => False | g :: l' => sat re g t \/ any l' end) fs
  | FNot g => ~ sat re g t
  | FTsBegin b => b <= h_inst (ft_hdr t)                       (* begin inclusive, on the instant *)
  | FTsEnd e => h_inst (ft_hdr t) < e                          (* end exclusive *)
  | FCode r => exists c, h_code (ft_hdr t) = Some c /\ re r c = true
  | FDesc r => exists d, h_desc (ft_hdr t) = Some d /\ re r d = true
  | FUuid u => h_uuid (ft_hdr t) = Some u
  | FBBox s w n e => exists g, h_loc (ft_hdr t) = Some g /\ box_spec s w n e g
  | FBBoxAlt s w d n e h =>
      exists g z, h_loc (ft_hdr t) = Some g /\ g_alt g = Some z /\ box_spec s w n e g
                  /\ d28 d <= d28 z /\ d28 z <= d28 h
  | FTags r => exists x, In x (h_tags (ft_hdr t)) /\ re r x = true
  | FComments r => exists x, In x (h_comments (ft_hdr t)) /\ re r x = true
  | FPAccount r => exists p, In p (ft_posts t) /\ re r (acct_str (p_acc p)) = true
  | FPComment r => exists c, In (Some c) (ft_pcomments t) /\ re r c = true
  | FPAmountEq r a => exists p, In p (ft_posts t) /\ re r (acct_str (p_acc p)) = true
                                /\ d28 (p_amount p) = d28 a       (* same posting *)
  | FPAmountLt r a => exists p, In p (ft_posts t) /\ re r (acct_str (p_acc p)) = true
                                /\ d28 (p_amount p) < d28 a
  | FPAmountGt r a => exists p, In p (ft_posts t) /\ re r (acct_str (p_acc p)) = true
                                /\ d28 a < d28 (p_amount p)
  | FPCommodity r => exists p, In p (ft_posts t) /\ re r (p_comm p) = true
  end.

(* "out is exactly the elements of l that satisfy P, in unchanged order" *)
Inductive Selects {A} (P : A -> Prop) : list A -> list A -> Prop :=
| Sel_nil : Selects P [] []
| Sel_in x l o : P x -> Selects P l o -> Selects P (x :: l) (x :: o)
| Sel_out x l o : ~ P x -> Selects P l o -> Selects P (x :: l) o.

(* order-preserving sub-sequence *)
Inductive Subseq {A} : list A -> list A -> Prop :=
| Sub_nil : Subseq [] []
| Sub_take x s l : Subseq s l -> Subseq (x :: s) (x :: l)
| Sub_skip x s l : Subseq s l -> Subseq s (x :: l).

(* l is an order-preserving interleaving of a and b (every element of l goes to exactly one) *)
Inductive Interleave {A} : list A -> list A -> list A -> Prop :=
| Il_nil : Interleave [] [] []
| Il_left x a b l : Interleave a b l -> Interleave (x :: a) b (x :: l)
| Il_right x a b l : Interleave a b l -> Interleave a (x :: b) (x :: l).

(* ---------------- boolean oracle ---------------- *)
Definition lon_spec_b (west east lon : dec) : bool :=
  if d28 west <=? d28 east then (d28 west <=? d28 lon) && (d28 lon <=? d28 east)
  else (d28 west <=? d28 lon) || (d28 lon <=? d28 east).
Definition box_spec_b (s w n e : dec) (g : geo) : bool :=
  (d28 s <=? d28 (g_lat g)) && (d28 (g_lat g) <=? d28 n) && lon_spec_b w e (g_lon g).

Fixpoint sat_b (re : N -> list N -> bool) (f : tfilter) (t : ftxn) : bool :=
  match f with
  | FTrue => true
  | FFalse => false
  | FAnd fs => (fix all (l : list tfilter) : bool :=
                  match l with [] => true | g :: l' => sat_b re g t && all l' end) fs
  | FOr fs => (fix any (l : list tfilter) : bool :=
                 match l with [] => false | g :: l' => sat_b re g t || any l' end) fs
  | FNot g => negb (sat_b re g t)
  | FTsBegin b => b <=? h_inst (ft_hdr t)
  | FTsEnd e => h_inst (ft_hdr t) <? e
  | FCode r => match h_code (ft_hdr t) with Some c => re r c | None => false end
  | FDesc r => match h_desc (ft_hdr t) with Some d => re r d | None => false end
  | FUuid u => match h_uuid (ft_hdr t) with Some x => str_eqb x u | None => false end
  | FBBox s w n e => match h_loc (ft_hdr t) with Some g => box_spec_b s w n e g | None => false end
  | FBBoxAlt s w d n e h =>
      match h_loc (ft_hdr t) with
      | Some g => match g_alt g with
                  | Some z => box_spec_b s w n e g && (d28 d <=? d28 z) && (d28 z <=? d28 h)
                  | None => false
                  end
      | None => false
      end
  | FTags r => existsb (re r) (h_tags (ft_hdr t))
  | FComments r => existsb (re r) (h_comments (ft_hdr t))
  | FPAccount r => existsb (fun p => re r (acct_str (p_acc p))) (ft_posts t)
  | FPComment r => existsb (fun c => match c with Some c => re r c | None => false end) (ft_pcomments t)
  | FPAmountEq r a => existsb (fun p => re r (acct_str (p_acc p)) && (d28 (p_amount p) =? d28 a)) (ft_posts t)
  | FPAmountLt r a => existsb (fun p => re r (acct_str (p_acc p)) && (d28 (p_amount p) <? d28 a)) (ft_posts t)
  | FPAmountGt r a => existsb (fun p => re r (acct_str (p_acc p)) && (d28 a <? d28 (p_amount p))) (ft_posts t)
  | FPCommodity r => existsb (fun p => re r (p_comm p)) (ft_posts t)
  end.

(* an observed selection is given as a mask over the unfiltered (sorted) set *)
Fixpoint pick {A} (mask : list bool) (l : list A) : list A :=
  match mask, l with
  | b :: m', x :: l' => if b then x :: pick m' l' else pick m' l'
  | _, _ => []
  end.
Fixpoint count_true (mask : list bool) : nat :=
  match mask with [] => 0%nat | b :: m' => ((if b then 1 else 0) + count_true m')%nat end.

(* oracle: the observed mask is the documented predicate, element by element *)
Definition select_oracle (re : N -> list N -> bool) (f : tfilter) (all : list ftxn) (mask : list bool) : bool :=
  list_eqb Bool.eqb (map (sat_b re f) all) mask.
(* oracle: the reported set size (when a checksum item is reported) is the size of the selection *)
Definition size_oracle (mask : list bool) (size : option N) : bool :=
  match size with Some n => N.eqb n (N.of_nat (count_true mask)) | None => true end.

(* ---------------- well-formedness: every Decimal has scale <= 28 ---------------- *)
Definition geo_wf (g : geo) : Prop :=
  dwf (g_lat g) /\ dwf (g_lon g) /\ match g_alt g with Some z => dwf z | None => True end.
Definition ftxn_wf (t : ftxn) : Prop :=
  Forall (fun p => dwf (p_amount p)) (ft_posts t)
  /\ match h_loc (ft_hdr t) with Some g => geo_wf g | None => True end.

Fixpoint filter_wf (f : tfilter) : Prop :=
  match f with
  | FAnd fs | FOr fs => (fix all (l : list tfilter) : Prop :=
                           match l with [] => True | g :: l' => filter_wf g /\ all l' end) fs
  | FNot g => filter_wf g
  | FBBox s w n e => dwf s /\ dwf w /\ dwf n /\ dwf e
  | FBBoxAlt s w d n e h => dwf s /\ dwf w /\ dwf d /\ dwf n /\ dwf e /\ dwf h
  | FPAmountEq _ a | FPAmountLt _ a | FPAmountGt _ a => dwf a
  | _ => True
  end.

(* boolean versions for the correspondence (exact domain) *)
Definition dwf_b (d : dec) : bool := (ds d <=? 28)%N.
Definition ftxn_wf_b (t : ftxn) : bool :=
  forallb (fun p => dwf_b (p_amount p)) (ft_posts t)
  && match h_loc (ft_hdr t) with
     | Some g => dwf_b (g_lat g) && dwf_b (g_lon g) && match g_alt g with Some z => dwf_b z | None => true end
     | None => true
     end.
Fixpoint filter_wf_b (f : tfilter) : bool :=
  match f with
  | FAnd fs | FOr fs => (fix all (l : list tfilter) : bool :=
                           match l with [] => true | g :: l' => filter_wf_b g && all l' end) fs
  | FNot g => filter_wf_b g
  | FBBox s w n e => dwf_b s && dwf_b w && dwf_b n && dwf_b e
  | FBBoxAlt s w d n e h => dwf_b s && dwf_b w && dwf_b d && dwf_b n && dwf_b e && dwf_b h
  | FPAmountEq _ a | FPAmountLt _ a | FPAmountGt _ a => dwf_b a
  | _ => true
  end.
