(* Price_spec.v — what price conversion is documented to do, stated directly on the price FILE
   (unordered, as written by the user): no sorting, no caches, no search.
   Definitions only. *)
From Coq Require Import Sorted.
From TkModel Require Import Base Dec Acct Txn Price.
Local Open Scope Z_scope.

(* identity of a price line: (instant, base commodity, eq commodity) *)
Definition pe_key (e : pentry) : Z * list N * list N := (pe_ts e, pe_base e, pe_eq e).
Definition distinct_keys (f : list pentry) : Prop := NoDup (map pe_key f).

(* the documented condition on the instant of an entry:
   txn-time: at or before the transaction; given-time: strictly before the given instant;
   last-price: every entry *)
Definition in_time (lk : lookup) (t_txn : Z) (e : pentry) : bool :=
  match lk with
  | LkTxnTime => pe_ts e <=? t_txn
  | LkGivenTime t => pe_ts e <? t
  | LkLastPrice => true
  | LkNone => false
  end.

(* an entry that prices commodity c into the report commodity and is applicable *)
Definition candidate (lk : lookup) (target c : list N) (t_txn : Z) (e : pentry) : bool :=
  str_eqb (pe_base e) c && str_eqb (pe_eq e) target && in_time lk t_txn e.

(* e is THE rate for commodity c: the applicable entry with the maximal instant *)
Definition RateAt (lk : lookup) (f : list pentry) (target c : list N) (t_txn : Z) (e : pentry) : Prop :=
  In e f /\ candidate lk target c t_txn e = true /\
  forall e', In e' f -> candidate lk target c t_txn e' = true -> pe_ts e' <= pe_ts e.
Definition NoRate (lk : lookup) (f : list pentry) (target c : list N) (t_txn : Z) : Prop :=
  forall e, In e f -> candidate lk target c t_txn e = false.

(* executable: scan the file, keep the strictly later candidate *)
Definition rate_at (lk : lookup) (f : list pentry) (target c : list N) (t_txn : Z) : option pentry :=
  fold_left (fun best e =>
               if candidate lk target c t_txn e
               then match best with
                    | None => Some e
                    | Some b => if pe_ts b <? pe_ts e then Some e else best
                    end
               else best) f None.

(* ---- hypotheses on the price file ---- *)
(* no line prices the report commodity in itself (`P .. EUR 2 EUR`) *)
Definition is_self_pair (target : list N) (e : pentry) : bool :=
  str_eqb (pe_base e) target && str_eqb (pe_eq e) target.
Definition no_self_pair (target : list N) (f : list pentry) : Prop :=
  forall e, In e f -> is_self_pair target e = false.

(* ---- specification of one converted posting ---- *)
Definition converted_with (target : list N) (p : posting) (e : pentry) (c : conv) : Prop :=
  cv_acc c = p_acc p /\ cv_comm c = target /\ cv_amount c = dmul (p_amount p) (pe_rate e) /\
  (forall r, cv_rate c = Some r -> r = pe_rate e).

(* the rate is shown next to the posting in txn-time mode only *)
Definition shown (lk : lookup) (r : dec) : option dec :=
  match lk with LkTxnTime => Some r | _ => None end.
Definition converted (lk : lookup) (target : list N) (p : posting) (e : pentry) : conv :=
  mkConv (p_acc p) target (dmul (p_amount p) (pe_rate e)) (shown lk (pe_rate e)).

Definition PostSpec (lk : lookup) (target : list N) (f : list pentry) (t_txn : Z) (p : posting) (c : conv) : Prop :=
  (* no commodity, already in the report commodity, or no applicable rate: unchanged *)
  (p_comm p = [] \/ p_comm p = target \/ NoRate lk f target (p_comm p) t_txn -> c = unconverted p) /\
  (* otherwise: amount x the latest applicable rate, in the report commodity *)
  (forall e, p_comm p <> [] -> p_comm p <> target -> RateAt lk f target (p_comm p) t_txn e ->
             converted_with target p e c).

Definition conv_eqb (a b : conv) : bool :=
  acct_eqb (cv_acc a) (cv_acc b) && str_eqb (cv_comm a) (cv_comm b)
  && drepr_eqb (cv_amount a) (cv_amount b) && opt_eqb drepr_eqb (cv_rate a) (cv_rate b).

(* boolean oracle for PostSpec on an observed converted posting *)
Definition post_ok_b (lk : lookup) (target : list N) (f : list pentry) (t_txn : Z) (p : posting) (c : conv) : bool :=
  match p_comm p with
  | [] => conv_eqb c (unconverted p)
  | pc =>
    if str_eqb pc target then conv_eqb c (unconverted p)
    else match rate_at lk f target pc t_txn with
         | None => conv_eqb c (unconverted p)
         | Some e =>
             acct_eqb (cv_acc c) (p_acc p) && str_eqb (cv_comm c) target
             && drepr_eqb (cv_amount c) (dmul (p_amount p) (pe_rate e))
             && match cv_rate c with None => true | Some r => drepr_eqb r (pe_rate e) end
         end
  end.

Fixpoint all2b {A B} (f : A -> B -> bool) (a : list A) (b : list B) : bool :=
  match a, b with
  | [], [] => true
  | x :: a', y :: b' => f x y && all2b f a' b'
  | _, _ => false
  end.

Definition txn_ok_b (lk : lookup) (target : list N) (f : list pentry) (tx : txn) (cs : list conv) : bool :=
  all2b (post_ok_b lk target f (h_inst (t_hdr tx))) (t_posts tx) cs.

(* ---- specification of the metadata records ---- *)
Definition str_lt (a b : list N) : Prop := str_cmp a b = Lt.
(* commodity c has some entry into the target that the lookup can ever use *)
Definition has_rate (lk : lookup) (f : list pentry) (target c : list N) : Prop :=
  exists e, In e f /\ str_eqb (pe_base e) c = true /\ str_eqb (pe_eq e) target = true /\
            match lk with LkGivenTime t => pe_ts e < t | LkNone => False | _ => True end.
Definition posting_comms (txns : list txn) : list (list N) := map p_comm (flat_map t_posts txns).

Definition MetaSpec (lk : lookup) (target : list N) (f : list pentry) (txns : list txn) (recs : list prec) : Prop :=
  StronglySorted str_lt (map pr_source recs) /\
  (forall c, In c (map pr_source recs) <-> In c (posting_comms txns) /\ c <> target /\ has_rate lk f target c) /\
  (forall r, In r recs ->
     pr_target r = target /\
     match lk with
     | LkTxnTime => pr_used r = None
     | _ => exists e rate, RateAt lk f target (pr_source r) 0 e /\
                          pr_used r = Some (pe_ts e, rate) /\ dcmp rate (pe_rate e) = Eq   (* same value *)
     end).

Definition has_rate_b (lk : lookup) (f : list pentry) (target c : list N) : bool :=
  existsb (fun e => str_eqb (pe_base e) c && str_eqb (pe_eq e) target
                    && match lk with LkGivenTime t => pe_ts e <? t | LkNone => false | _ => true end) f.
Fixpoint strictly_ascending (l : list (list N)) : bool :=
  match l with
  | [] => true
  | x :: l' => match l' with [] => true | y :: _ => match str_cmp x y with Lt => true | _ => false end end
               && strictly_ascending l'
  end.
Definition rec_ok_b (lk : lookup) (target : list N) (f : list pentry) (r : prec) : bool :=
  str_eqb (pr_target r) target &&
  match lk with
  | LkTxnTime => match pr_used r with None => true | Some _ => false end
  | _ => match rate_at lk f target (pr_source r) 0, pr_used r with
         | Some e, Some (ts, rate) => (ts =? pe_ts e) && deqb rate (pe_rate e)
         | _, _ => false
         end
  end.
Definition meta_ok_b (lk : lookup) (target : list N) (f : list pentry) (txns : list txn) (recs : list prec) : bool :=
  strictly_ascending (map pr_source recs)
  && forallb (fun r => mem_str (pr_source r) (posting_comms txns) && negb (str_eqb (pr_source r) target)
                       && has_rate_b lk f target (pr_source r)) recs
  && forallb (fun c => negb (has_rate_b lk f target c) || str_eqb c target || mem_str c (map pr_source recs))
             (posting_comms txns)
  && forallb (rec_ok_b lk target f) recs.

(* decidable forms of the hypotheses, for the generators' classification *)
Fixpoint distinct_keys_b (f : list pentry) : bool :=
  match f with
  | [] => true
  | e :: f' => negb (existsb (pe_eqb e) f') && distinct_keys_b f'
  end.
Definition has_self_pair_b (target : list N) (f : list pentry) : bool := existsb (is_self_pair target) f.

(* ---- "the rates shown in the metadata are the ones applied" (fixed modes) ----
   a listed record is applied when every posting of the set that has its commodity is valued with it *)
Definition is_fixed (lk : lookup) : Prop :=
  match lk with LkLastPrice | LkGivenTime _ => True | _ => False end.
Definition RecordApplied (lk : lookup) (txns : list txn) (target : list N) (f : list pentry) (r : prec) : Prop :=
  forall tx p, In tx txns -> In p (t_posts tx) -> p_comm p = pr_source r -> p_comm p <> [] ->
    exists e rate, pr_used r = Some (pe_ts e, rate) /\ dcmp rate (pe_rate e) = Eq /\
                   convert_one lk txns target f (h_inst (t_hdr tx)) p = converted lk target p e.
