(* T08_spec.v — glue for the capstone extension T08 (the numbered properties restated about THE TEXT THE
   TOOL PRINTS, i.e. about T06_run.run_console / run_files).  Definitions only, all of them small:
     - where a report sits in the console text (framed),
     - "two run configurations differ only in ..." — stated through the ACCESSOR functions of run_cfg
       (never through its constructor, so that a later extension of the record does not touch them),
     - the numeric codes of Config.v (C19) read off a run configuration,
     - the writer targets of Output.v (C14) built from the files of a run,
     - small readers used in the statements (which parsed transaction a loaded one comes from).
   The readers that cut the console text at the separator lines are T06_spec's (read_console, from_title). *)
From TkModel Require Import Base Dec Acct Txn Accept Journal Balance Register Round Price Time Group.
From TkModel Require Import ReportText T05_report PriceText T06_run.
From TkModel Require Filter MetaText Config Output.
From TkSpec Require Import Balance_spec.
Local Open Scope Z_scope.

(* ------------------------------------------------------------------ the console text *)
(* the report text r is embedded in the console text: a line of 82 '*', r, a line of 82 '#' *)
Definition framed (r out : list N) : Prop :=
  exists pre post, out = pre ++ (repeat 42%N 82 ++ [10%N]) ++ r ++ (repeat 35%N 82 ++ [10%N]) ++ post.

(* ------------------------------------------------------------------ comparing two run configurations *)
(* what run_prepare reads: journal time-stamp defaults, audit mode and algorithm, the price settings, the filter *)
Definition same_inputs (a b : run_cfg) : Prop :=
  rc_journal a = rc_journal b /\ rc_audit a = rc_audit b /\ rc_algo a = rc_algo b
  /\ rc_commodity a = rc_commodity b /\ rc_lookup a = rc_lookup b /\ rc_before a = rc_before b
  /\ rc_filter a = rc_filter b
  (* ... described in the report zone (the time-stamp leaves of a filter print in it): equal for equal zones, and for
     different zones when the filter has no time-stamp leaf *)
  /\ filter_desc a = filter_desc b.
(* which reports / exports, of which accounts, under which titles, where to *)
Definition same_selectors (a b : run_cfg) : Prop :=
  rc_accounts a = rc_accounts b /\ rc_bal_acc a = rc_bal_acc b /\ rc_grp_acc a = rc_grp_acc b
  /\ rc_reg_acc a = rc_reg_acc b /\ rc_eq_acc a = rc_eq_acc b.
Definition same_layout (a b : run_cfg) : Prop :=
  rc_targets a = rc_targets b /\ rc_exports a = rc_exports b
  /\ rc_group_by a = rc_group_by b
  /\ rc_title_bal a = rc_title_bal b /\ rc_title_grp a = rc_title_grp b /\ rc_title_reg a = rc_title_reg b
  /\ rc_ts_style a = rc_ts_style b /\ rc_eq_account a = rc_eq_account b
  /\ rc_out_dir a = rc_out_dir b /\ rc_prefix a = rc_prefix b.
Definition same_zone (a b : run_cfg) : Prop := rc_zone_name a = rc_zone_name b /\ rc_zone_off a = rc_zone_off b.

(* the two configurations agree on every setting but ... *)
Definition differ_only_in_scale (a b : run_cfg) : Prop :=
  same_inputs a b /\ same_selectors a b /\ same_layout a b /\ same_zone a b.
Definition differ_only_in_zone (a b : run_cfg) : Prop :=
  same_inputs a b /\ same_selectors a b /\ same_layout a b /\ rc_scale a = rc_scale b.
Definition differ_only_in_selectors (a b : run_cfg) : Prop :=
  same_inputs a b /\ same_layout a b /\ same_zone a b /\ rc_scale a = rc_scale b.
(* ... and on every setting the run reads (the selectors through the fall-back rule only) *)
Definition same_run_view (a b : run_cfg) : Prop :=
  same_inputs a b /\ same_layout a b /\ same_zone a b /\ rc_scale a = rc_scale b
  /\ (forall k, sel_of a k = sel_of b k) /\ sel_equity a = sel_equity b.

(* ------------------------------------------------------------------ C01: where a loaded transaction comes from *)
(* the loaded transaction t is what the semantic layer made of the syntax-level transaction pt *)
Definition accepted_from (pt : ptxn) (t : jtxn) : Prop :=
  jt_hdr t = pt_hdr pt /\ accept_txn (ptxn_raw pt) = Ok (map jp_p (jt_posts t)).

(* ------------------------------------------------------------------ C04: pairwise distinguishable *)
Definition jdistinct (l : list jtxn) : Prop :=
  NoDup l /\ forall a b, In a l -> In b l -> header_cmp (jt_hdr a) (jt_hdr b) = Eq -> a = b.

(* ------------------------------------------------------------------ C14: the writer model on the files of a run *)
(* the destinations of a run in --output.dir mode, in the order of creation: `pre` says which of them
   already exist (and with what content), `cks` is ANY chunking of the contents (how the reporters cut
   their output into write calls is not modelled: every theorem holds for every chunking) *)
Definition chunked (files : list (list N * list N)) (cks : list (list (list N))) : Prop :=
  Forall2 (fun f ck => concat ck = snd f) files cks.
Definition writer_targets (pre : list (option (list N))) (cks : list (list (list N)))
  : list (option (list N) * list (list N)) := combine pre cks.

(* ------------------------------------------------------------------ C19: a run configuration as Config.eff reads *)
Definition kind_code (k : MetaText.report_kind) : N :=
  match k with MetaText.RBalance => 0 | MetaText.RBalGroup => 1 | MetaText.RRegister => 2 end%N.
Definition export_code (x : export_kind) : N := match x with XEquity => 0 | XIdentity => 1 end%N.
Definition lookup_code (l : lookup_type) : N :=
  match l with LtNone => 0 | LtTxnTime => 1 | LtLastPrice => 2 | LtGivenTime => 3 end%N.
Definition group_code (g : group_by) : N :=
  match g with GbYear => 0 | GbMonth => 1 | GbDate => 2 | GbIsoWeek => 3 | GbIsoWeekDate => 4 end%N.

(* the run configuration cfg carries the overridable keys of the effective configuration e
   (strict mode is off in T06's runs; the selectors are compared as configured pattern texts) *)
Definition reads_eff (e : Config.eff) (cfg : run_cfg) : Prop :=
  Config.e_strict e = false
  /\ rc_audit cfg = Config.e_audit e
  /\ map kind_code (rc_targets cfg) = Config.e_reports e
  /\ map export_code (rc_exports cfg) = Config.e_exports e
  /\ rc_commodity cfg = Config.e_commodity e
  /\ lookup_code (rc_lookup cfg) = Config.e_lookup e
  /\ group_code (rc_group_by cfg) = Config.e_group_by e
  /\ sel_pats (sel_of cfg MetaText.RBalance) = Config.e_ras_bal e
  /\ sel_pats (sel_of cfg MetaText.RBalGroup) = Config.e_ras_balgrp e
  /\ sel_pats (sel_of cfg MetaText.RRegister) = Config.e_ras_reg e
  /\ sel_pats (sel_equity cfg) = Config.e_ras_eq e.

(* the selectors are lists of well-formed account names (non-empty components without ':'): then the configured
   pattern text determines the name *)
Definition sels_wf (cfg : run_cfg) : Prop :=
  (forall k, Forall acct_wf (sel_of cfg k)) /\ Forall acct_wf (sel_equity cfg).
(* the settings that no command line option shadows *)
Definition same_fixed (a b : run_cfg) : Prop :=
  rc_journal a = rc_journal b /\ rc_algo a = rc_algo b /\ rc_before a = rc_before b /\ rc_filter a = rc_filter b
  /\ same_zone a b /\ rc_scale a = rc_scale b
  /\ rc_title_bal a = rc_title_bal b /\ rc_title_grp a = rc_title_grp b /\ rc_title_reg a = rc_title_reg b
  /\ rc_ts_style a = rc_ts_style b /\ rc_eq_account a = rc_eq_account b
  /\ rc_out_dir a = rc_out_dir b /\ rc_prefix a = rc_prefix b.
