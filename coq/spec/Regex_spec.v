(* Regex_spec.v — what account selection must mean, stated without the wrapper:
   a pattern selects an account iff it matches the ENTIRE account name; a selected report
   lists exactly the rows of the unselected report whose account is selected by at least
   one pattern (all rows when there is no pattern), with the same figures; the delta of a
   commodity is the sum of the listed own sums. Plus the boolean oracle deciding this on an
   observed pair (unselected report, selected report). Definitions only. *)
From TkModel Require Import Base Dec Acct Balance Regex Select.
From TkSpec Require Import Balance_spec.
Local Open Scope Z_scope.

(* the pattern matches the whole haystack: from position 0 to the end *)
Definition full_match (p : re) (s : str) : Prop := m s p 0 (length s).

(* a match that covers only part of the haystack (what must NOT select) *)
Definition partial_match_only (p : re) (s : str) : Prop := search p s /\ ~ full_match p s.

(* an account name is selected by a list of patterns *)
Definition name_selected (pats : list re) (a : acct) : Prop :=
  pats = [] \/ exists p, In p pats /\ full_match p (acct_str a).

(* decision procedures (proved equivalent to the relations in Regex_proofs) *)
Definition full_matchb (p : re) (s : str) : bool := existsb (Nat.eqb (length s)) (ends s p 0).
Definition name_selectedb (pats : list re) (a : acct) : bool :=
  match pats with
  | [] => true
  | _ => existsb (fun p => full_matchb p (acct_str a)) pats
  end.

(* which rows a selected balance must list: the report lists the selected names, the
   equity export the selected names with a non-zero own sum *)
Definition must_list (equity : bool) (pats : list re) (r : brow) : Prop :=
  name_selected pats (r_acc r) /\ (equity = true -> dm (r_own r) <> 0).
Definition must_listb (equity : bool) (pats : list re) (r : brow) : bool :=
  name_selectedb pats (r_acc r) && (if equity then negb (is_zero (r_own r)) else true).

(* same row, same figures: exact representation (mantissa and scale) of both sums *)
Definition brow_same (a b : brow) : bool :=
  key_eqb (r_key a) (r_key b) && drepr_eqb (r_own a) (r_own b) && drepr_eqb (r_tree a) (r_tree b).

(* --- oracle on an observed pair: `unf` = rows of the report without selector,
       `rep` = the report with the selectors `pats` --- *)
Definition listed_ok (equity : bool) (pats : list re) (unf listed : list brow) : bool :=
  list_eqb brow_same listed (filter (must_listb equity pats) unf).
Definition select_oracle (equity : bool) (pats : list re) (unf : list brow) (rep : bal_report)
  : bool :=
  listed_ok equity pats unf (b_rows rep) && deltas_ok (b_rows rep) (b_deltas rep).

(* register: every transaction keeps its entry; the listed rows of an entry are the
   selected rows of the unselected entry, with the same running totals *)
Definition rrow_same (a b : rrow) : bool :=
  key_eqb (rr_key a) (rr_key b) && drepr_eqb (rr_amt a) (rr_amt b)
  && drepr_eqb (rr_total a) (rr_total b).
Definition reg_oracle (pats : list re) (unf listed : list (list rrow)) : bool :=
  list_eqb (list_eqb rrow_same) listed
           (map (filter (fun r => name_selectedb pats (rr_acc r))) unf).
