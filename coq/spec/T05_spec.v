(* T05_spec.v — what the text reports must show UNDER PRICE CONVERSION, stated on the price FILE
   (as written), the transactions and the report scale: no caches, no engines, no widths.
   Definitions only: the documented conversion of one posting (rate_at of Price_spec), the exact
   figures (integer sums in units of 10^-28, and 10^-56 for amount x rate), what a reader finds
   in the lines of the text (fields of ReportText_spec.words; every figure read back with
   Round_spec.dread is the exact figure rounded half away from zero to the clamped scale:
   Round_spec.shows), and the boolean oracles deciding this on an OBSERVED text. *)
From Coq Require Import QArith.
From TkModel Require Import Base Dec Acct Txn Balance Register Round Price ReportText T05_report.
From TkSpec Require Import Balance_spec Register_spec Round_spec Price_spec ReportText_spec.
Local Open Scope Z_scope.

(* ------------------------------------------------------------------ the documented conversion *)
(* THE rate of a posting (commodity c, transaction instant t): none without report commodity,
   without commodity or in the report commodity; otherwise the latest applicable line of the
   price file for (c -> report commodity) — Price_spec.rate_at *)
Definition spec_rate (lk : lookup) (rc : option (list N)) (f : list pentry) (t : Z) (p : posting)
  : option pentry :=
  match rc with
  | None => None
  | Some tgt =>
      match p_comm p with
      | [] => None
      | pc => if str_eqb pc tgt then None else rate_at lk f tgt pc t
      end
  end.

(* the posting as the reports must value it: amount x rate in the report commodity (the rate is
   shown next to the posting in txn-time mode), or unchanged *)
Definition spec_conv (lk : lookup) (rc : option (list N)) (f : list pentry) (t : Z) (p : posting) : conv :=
  match rc, spec_rate lk rc f t p with
  | Some tgt, Some e => converted lk tgt p e
  | _, _ => unconverted p
  end.

(* its exact worth in units of 10^-56: amount x rate, both read in units of 10^-28 *)
Definition worth56 (lk : lookup) (rc : option (list N)) (f : list pentry) (t : Z) (p : posting) : Z :=
  match spec_rate lk rc f t p with
  | Some e => d28 (p_amount p) * d28 (pe_rate e)
  | None => d28 (p_amount p) * pow10 28
  end.

(* inside the exact domain: the amount, the rate and the converted amount keep <= 28 decimals *)
Definition post_dom (lk : lookup) (rc : option (list N)) (f : list pentry) (t : Z) (p : posting) : Prop :=
  dwf (p_amount p) /\ dwf (cv_amount (spec_conv lk rc f t p)).
Definition txn_dom (lk : lookup) (rc : option (list N)) (f : list pentry) (tx : txn) : Prop :=
  Forall (post_dom lk rc f (h_inst (t_hdr tx))) (t_posts tx).

(* the converted posting as a posting (register accumulator) and as a balance posting *)
Definition cpost (c : conv) : posting :=
  mkPosting (cv_acc c) (cv_comm c) (cv_amount c) (cv_amount c) false (cv_comm c).
Definition spec_bposts (lk : lookup) (rc : option (list N)) (f : list pentry) (txns : list txn) : list bpost :=
  flat_map (fun tx => map (fun p => conv_bpost (spec_conv lk rc f (h_inst (t_hdr tx)) p)) (t_posts tx)) txns.

(* ------------------------------------------------------------------ reading a figure *)
(* the text t is a number with min..max decimals denoting z / 10^28 rounded half away from zero
   to max decimals *)
Definition fig_shows (sc : scale_cfg) (t : list N) (z : Z) : Prop := shows sc t (q28 z).
Definition fig_ok (sc : scale_cfg) (z : Z) (t : list N) : bool := shown_ok sc (mkDec z 28) t.

(* names that are safe in a line / as fields of a line (the hypotheses of the text theorems):
   the report commodity and every posting commodity is empty or a field (no blank, no newline);
   register: account names and header texts without newline; balance: accounts well formed
   (non-empty components without ':') and every component a field *)
Definition rc_name (rc : option (list N)) : list N := match rc with Some t => t | None => [] end.
Definition reg_names_in (rc : option (list N)) (ts_text : header -> list N) (input : list txn) : Prop :=
  opt_field (rc_name rc)
  /\ Forall (fun tx => header_names_ok (ts_text (t_hdr tx)) (t_hdr tx)
                       /\ Forall (fun p => opt_field (p_comm p) /\ no_nl (acct_str (p_acc p))) (t_posts tx)) input.
Definition bal_names_in (rc : option (list N)) (input : list txn) : Prop :=
  opt_field (rc_name rc)
  /\ Forall (fun tx => Forall (fun p => opt_field (p_comm p) /\ acct_wf (p_acc p) /\ Forall field (p_acc p))
                              (t_posts tx)) input.

(* ------------------------------------------------------------------ balance *)
Definition sel_key (names : list (list (list N))) (k : list (list N) * list N) : bool :=
  match names with [] => true | _ => existsb (acct_eqb (fst k)) names end.

(* the rows: every (account, commodity) posted to AFTER conversion and all its ancestors, each
   once, ascending by (commodity, account string); then the listed ones *)
Definition spec_row_keys (ps : list bpost) : list (list (list N) * list N) :=
  dedup_by key_eqb (sort_by key_leb (spec_keys ps)).
Definition listed_keys (names : list (list (list N))) (ps : list bpost) : list (list (list N) * list N) :=
  filter (sel_key names) (spec_row_keys ps).
(* the commodities of the listed rows, each once, ascending *)
Definition listed_comms (keys : list (list (list N) * list N)) : list (list N) :=
  dedup_by str_eqb (sort_by str_leb (map snd keys)).
(* the delta of a commodity: sum of the listed rows' own sums *)
Definition spec_kdelta (ps : list bpost) (keys : list (list (list N) * list N)) (c : list N) : Z :=
  zsum (map (spec_own ps) (filter (fun k => str_eqb (snd k) c) keys)).

(* a row line: own sum, tree sum, [commodity], account — figures = rounded exact sums of the
   CONVERTED postings to the account / to its subtree *)
Definition krow_shows (sc : scale_cfg) (ps : list bpost) (k : list (list N) * list N) (l : list N) : Prop :=
  exists o t, words l = [o; t] ++ opt_word (snd k) ++ [acct_str (fst k)]
              /\ fig_shows sc o (spec_own ps k) /\ fig_shows sc t (spec_tree ps k).
Definition kdelta_shows (sc : scale_cfg) (ps : list bpost) (keys : list (list (list N) * list N))
           (c : list N) (l : list N) : Prop :=
  exists d, words l = d :: opt_word c /\ fig_shows sc d (spec_kdelta ps keys c).

Definition bal_block_shows (sc : scale_cfg) (ps : list bpost) (keys : list (list (list N) * list N))
           (ls : list (list N)) : Prop :=
  match keys with
  | [] => ls = []
  | _ => exists rl ruler dl,
      ls = rl ++ ruler :: dl
      /\ Forall2 (krow_shows sc ps) keys rl
      /\ is_ruler ch_eq ruler = true
      /\ Forall2 (kdelta_shows sc ps keys) (listed_comms keys) dl
  end.

Definition bal_text_shows (title : list N) (sc : scale_cfg) (ps : list bpost)
           (keys : list (list (list N) * list N)) (text : list N) : Prop :=
  exists ls, text_lines text = title :: repeat ch_dash (length title) :: ls ++ [[]]
             /\ bal_block_shows sc ps keys ls.

(* the oracle *)
Definition krow_ok (sc : scale_cfg) (ps : list bpost) (k : list (list N) * list N) (l : list N) : bool :=
  match words l with
  | o :: t :: rest =>
      words_eqb rest (opt_word (snd k) ++ [acct_str (fst k)])
      && fig_ok sc (spec_own ps k) o && fig_ok sc (spec_tree ps k) t
  | _ => false
  end.
Definition kdelta_ok (sc : scale_cfg) (ps : list bpost) (keys : list (list (list N) * list N))
           (c : list N) (l : list N) : bool :=
  match words l with
  | d :: rest => words_eqb rest (opt_word c) && fig_ok sc (spec_kdelta ps keys c) d
  | [] => false
  end.
Definition bal_block_shows_ok (sc : scale_cfg) (ps : list bpost) (keys : list (list (list N) * list N))
           (ls : list (list N)) : bool :=
  match keys with
  | [] => match ls with [] => true | _ => false end
  | _ =>
      let n := length keys in
      forall2b (krow_ok sc ps) keys (firstn n ls)
      && match skipn n ls with
         | ruler :: dl => is_ruler ch_eq ruler && forall2b (kdelta_ok sc ps keys) (listed_comms keys) dl
         | [] => false
         end
  end.
Definition bal_text_shows_ok (title : list N) (sc : scale_cfg) (ps : list bpost)
           (keys : list (list (list N) * list N)) (text : list N) : bool :=
  match text_lines text with
  | t :: u :: rest =>
      str_eqb t title && str_eqb u (repeat ch_dash (length title))
      && match rev rest with
         | [] :: rl => bal_block_shows_ok sc ps keys (rev rl)
         | _ => false
         end
  | _ => false
  end.

(* ------------------------------------------------------------------ register *)
(* one expected row: the ORIGINAL posting, the commodity and rate it is shown with, and the
   exact running total (units of 10^-28) in that commodity *)
Record srow : Type := mkSrow { sr_post : posting; sr_comm : list N; sr_rate : option dec; sr_total : Z }.

(* rows of one entry, postings in the order ps; `earlier` = the CONVERTED postings accumulated
   before (all earlier transactions and the rows above): conversion per posting, then
   accumulation under (account, commodity after conversion) *)
Fixpoint spec_crows (cv : posting -> conv) (earlier : list posting) (ps : list posting) : list srow :=
  match ps with
  | [] => []
  | p :: ps' =>
      let c := cv p in
      mkSrow p (cv_comm c) (cv_rate c) (spec_total earlier (cpost c))
      :: spec_crows cv (earlier ++ [cpost c]) ps'
  end.

(* the complete register of the transactions ts (in report order); rows of a transaction in
   the in-entry order of the ORIGINAL postings (Register_spec.entry_posts) *)
Fixpoint spec_centries (cv : Z -> posting -> conv) (earlier : list posting) (ts : list txn)
  : list (txn * list srow) :=
  match ts with
  | [] => []
  | t :: ts' =>
      let cvt := cv (h_inst (t_hdr t)) in
      (t, spec_crows cvt earlier (entry_posts t))
      :: spec_centries cv (earlier ++ map (fun p => cpost (cvt p)) (entry_posts t)) ts'
  end.

(* the account selector hides rows, nothing else *)
Definition listed_rows (names : list (list (list N))) (e : txn * list srow) : txn * list srow :=
  (fst e, filter (fun s => keep names (sr_post s)) (snd e)).

Definition spec_register (lk : lookup) (rc : option (list N)) (f : list pentry)
           (names : list (list (list N))) (input : list txn) : list (txn * list srow) :=
  map (listed_rows names) (spec_centries (spec_conv lk rc f) [] (sort_txns input)).

(* the fields printed between the amount and the running total of a converted row:
   the original commodity and, when a rate is shown, `@` and the rate as written by Display *)
Definition conv_words (s : srow) : list (list N) :=
  if str_eqb (sr_comm s) (p_comm (sr_post s)) then []
  else p_comm (sr_post s) :: match sr_rate s with Some r => [[64%N]; dfmt r] | None => [] end.

(* a row line: indent, account, then amount (the ORIGINAL amount), [original commodity [@ rate]],
   running total, [commodity after conversion] *)
Definition crow_shows (sc : scale_cfg) (s : srow) (l : list N) : Prop :=
  exists rest a t,
    l = indent12 ++ acct_str (p_acc (sr_post s)) ++ rest
    /\ words rest = [a] ++ conv_words s ++ [t] ++ opt_word (sr_comm s)
    /\ fig_shows sc a (pamt28 (sr_post s)) /\ fig_shows sc t (sr_total s).

Fixpoint reg_cbody_shows (sc : scale_cfg) (es : list (list N * (txn * list srow))) (ls : list (list N)) : Prop :=
  match es with
  | [] => ls = []
  | (ts, (t, rows)) :: es' =>
      match rows with
      | [] => reg_cbody_shows sc es' ls
      | _ => exists rl d ls',
          ls = header_lines indent12 ts (t_hdr t) ++ rl ++ d :: ls'
          /\ Forall2 (crow_shows sc) rows rl
          /\ is_ruler ch_dash d = true
          /\ reg_cbody_shows sc es' ls'
      end
  end.

Definition reg_text_shows (title : list N) (sc : scale_cfg) (es : list (list N * (txn * list srow)))
           (text : list N) : Prop :=
  exists ls, text_lines text = title :: repeat ch_dash (length title) :: ls ++ [[]]
             /\ reg_cbody_shows sc es ls.

Definition with_ts_spec (ts_text : header -> list N) (es : list (txn * list srow))
  : list (list N * (txn * list srow)) :=
  map (fun e => (ts_text (t_hdr (fst e)), e)) es.

(* the oracle *)
Definition crow_ok (sc : scale_cfg) (s : srow) (l : list N) : bool :=
  match strip_prefix (indent12 ++ acct_str (p_acc (sr_post s))) l with
  | Some rest =>
      match words rest with
      | a :: ws =>
          let cw := conv_words s in
          fig_ok sc (pamt28 (sr_post s)) a
          && words_eqb (firstn (length cw) ws) cw
          && match skipn (length cw) ws with
             | t :: tail => fig_ok sc (sr_total s) t && words_eqb tail (opt_word (sr_comm s))
             | [] => false
             end
      | [] => false
      end
  | None => false
  end.

Fixpoint reg_cbody_ok (sc : scale_cfg) (es : list (list N * (txn * list srow))) (ls : list (list N)) : bool :=
  match es with
  | [] => match ls with [] => true | _ => false end
  | (ts, (t, rows)) :: es' =>
      match rows with
      | [] => reg_cbody_ok sc es' ls
      | _ =>
          let hl := header_lines indent12 ts (t_hdr t) in
          let nh := length hl in
          let nr := length rows in
          list_eqb str_eqb (firstn nh ls) hl
          && forall2b (crow_ok sc) rows (firstn nr (skipn nh ls))
          && match skipn nr (skipn nh ls) with
             | d :: ls' => is_ruler ch_dash d && reg_cbody_ok sc es' ls'
             | [] => false
             end
      end
  end.

Definition reg_text_shows_ok (title : list N) (sc : scale_cfg) (es : list (list N * (txn * list srow)))
           (text : list N) : bool :=
  match text_lines text with
  | t :: u :: rest =>
      str_eqb t title && str_eqb u (repeat ch_dash (length title))
      && match rev rest with
         | [] :: rl => reg_cbody_ok sc es (rev rl)
         | _ => false
         end
  | _ => false
  end.

(* ------------------------------------------------------------------ the whole reports *)
(* what the register / balance text of a journal must satisfy, from the price file *)
Definition register_text_spec (title : list N) (sc : scale_cfg) (ts_text : header -> list N)
           (lk : lookup) (rc : option (list N)) (f : list pentry)
           (names : list (list (list N))) (input : list txn) (text : list N) : Prop :=
  reg_text_shows title sc (with_ts_spec ts_text (spec_register lk rc f names input)) text.

Definition balance_text_spec (title : list N) (sc : scale_cfg)
           (lk : lookup) (rc : option (list N)) (f : list pentry)
           (names : list (list (list N))) (input : list txn) (text : list N) : Prop :=
  let ps := spec_bposts lk rc f input in
  bal_text_shows title sc ps (listed_keys names ps) text.

Definition register_text_ok (title : list N) (sc : scale_cfg) (ts_text : header -> list N)
           (lk : lookup) (rc : option (list N)) (f : list pentry)
           (names : list (list (list N))) (input : list txn) (text : list N) : bool :=
  reg_text_shows_ok title sc (with_ts_spec ts_text (spec_register lk rc f names input)) text.

Definition balance_text_ok (title : list N) (sc : scale_cfg)
           (lk : lookup) (rc : option (list N)) (f : list pentry)
           (names : list (list (list N))) (input : list txn) (text : list N) : bool :=
  let ps := spec_bposts lk rc f input in
  bal_text_shows_ok title sc ps (listed_keys names ps) text.
