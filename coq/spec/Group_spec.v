(* Group_spec.v — what the balance-group report must show, stated directly on the
   transactions and their period keys; plus independent calendar specifications and the
   boolean oracle applied to an observed report.  Definitions only. *)
From TkModel Require Import Base Dec Acct Txn Balance Time Group.
From TkSpec Require Import Balance_spec.
Local Open Scope Z_scope.

(* ---------------- calendar: independent specifications ---------------- *)

Definition is_leap (y : Z) : bool :=
  ((y mod 4 =? 0) && negb (y mod 100 =? 0)) || (y mod 400 =? 0).
Definition days_in_month (y m : Z) : Z :=
  if m =? 2 then (if is_leap y then 29 else 28)
  else if (m =? 4) || (m =? 6) || (m =? 9) || (m =? 11) then 30 else 31.
Definition valid_civil (y m d : Z) : Prop := 1 <= m <= 12 /\ 1 <= d <= days_in_month y m.

(* day number of an ISO week date: week 1 is the week (Monday..Sunday) containing January 4 *)
Definition days_of_iso (y w wd : Z) : Z :=
  let jan4 := days_of_civil y 1 4 in
  jan4 - (weekday jan4 - 1) + 7 * (w - 1) + (wd - 1).

(* periods as numbers: the chronological order of periods *)
Definition period_num (gb : group_by) (days : Z) : Z :=
  match gb with
  | GbYear => let '(y, _, _) := civil_of_days days in y
  | GbMonth => let '(y, m, _) := civil_of_days days in y * 100 + m
  | GbDate => let '(y, m, d) := civil_of_days days in y * 10000 + m * 100 + d
  | GbIsoWeek => let '(y, w, _) := iso_of_days days in y * 100 + w
  | GbIsoWeekDate => let '(y, w, wd) := iso_of_days days in y * 1000 + w * 10 + wd
  end.

(* the domain of the property: the year printed in the key has four digits *)
Definition year_ok (gb : group_by) (days : Z) : Prop := 1000 <= key_year gb days <= 9999.
Definition year_okb (gb : group_by) (days : Z) : bool :=
  (1000 <=? key_year gb days) && (key_year gb days <=? 9999).

(* ---------------- the report ---------------- *)

(* the members of period k: by key (NOT by adjacency) *)
Definition period_members (kf : txn -> str) (txns : list txn) (k : str) : list txn :=
  filter (fun t => str_eqb (kf t) k) txns.

Definition str_lt (a b : str) : Prop := str_cmp a b = Lt.
Definition str_le (a b : str) : Prop := str_cmp a b <> Gt.

Fixpoint strictly_ascending (l : list str) : bool :=
  match l with
  | [] => true
  | a :: l' => match l' with
               | [] => true
               | b :: _ => match str_cmp a b with Lt => strictly_ascending l' | _ => false end
               end
  end.

(* own sum of (account, commodity) k shown by a report: 0 when the row is absent *)
Definition own_in (rep : bal_report) (k : key) : Z :=
  zsum (map (fun r => d28 (r_own r)) (filter (fun r => key_eqb (r_key r) k) (b_rows rep))).

(* ---------------- executable oracle on an observed report ----------------
   txns: the selected transactions in report order; kf: their period keys;
   selk: the account selector as a predicate on the row key (all / by account name);
   obs: the observed groups.  All postings unconverted (conv). *)
Definition has_title (obs : list bgroup) (k : str) : bool :=
  existsb (fun g => str_eqb (g_title g) k) obs.

Definition group_ok (conv : txn -> list bpost) (kf : txn -> str) (selk : key -> bool)
           (txns : list txn) (g : bgroup) : bool :=
  let ps := flat_map conv (period_members kf txns (g_title g)) in
  let rows := b_rows (g_rep g) in
  let ks := map r_key rows in
  negb (group_is_empty g)
  && rows_ok ps rows
  && deltas_ok rows (b_deltas (g_rep g))
  && strictly_sorted ks
  && forallb (fun k => key_in k (spec_keys ps) && selk k) ks
  && forallb (fun k => implb (selk k) (key_in k ks)) (spec_keys ps).

Definition groups_ok (conv : txn -> list bpost) (kf : txn -> str) (selk : key -> bool)
           (txns : list txn) (obs : list bgroup) : bool :=
  let titles := map g_title obs in
  let all := flat_map conv txns in
  strictly_ascending titles
  && forallb (group_ok conv kf selk txns) obs
  && forallb (fun g => existsb (fun t => str_eqb (kf t) (g_title g)) txns) obs
  && forallb (fun t =>
       Bool.eqb (has_title obs (kf t))
                (existsb selk (spec_keys (flat_map conv (period_members kf txns (kf t)))))) txns
  && forallb (fun k => implb (selk k)
                 (zsum (map (fun g => own_in (g_rep g) k) obs) =? spec_own all k)) (spec_keys all).
