(* Codec_spec.v — specification side of C18. Definitions only.
   The specification of a codec is mostly "the two directions are inverse" (stated in props/C18.v);
   here: well-formedness of parsed definitions, the armor specification (exactly one prefix),
   the list of variant names, and the oracle evaluated on what the implementation returns. *)
From TkModel Require Import Base Dec Codec.
Local Open Scope Z_scope.

(* ---- armor: exactly one "base64:" prefix, then canonical base64 ---- *)
Definition armor_payload_spec (s : list N) : option (list N) :=
  match strip_prefix armor_tag s with
  | Some rest => b64_dec rest
  | None => None
  end.

Definition is_byte (b : N) : bool := (b <? 256)%N.
(* byte strings; Rust strings (sequences of Unicode scalar values) *)
Definition bytes (bs : list N) : Prop := Forall (fun b => (b < 256)%N) bs.
Definition scalars (s : list N) : Prop := Forall (fun c => is_scalar c = true) s.
Definition b64_alphabet (c : N) : bool :=
  match b64_val c with Some _ => true | None => false end.

(* ---- values a parsed definition can hold ---- *)
(* 0000-01-01T00:00:00Z .. Timestamp::MAX (the years the four-digit form can print) *)
Definition ts_wf (z : Z) : bool := (-62167219200 <=? z / ns_per_s) && (z / ns_per_s <=? ts_max_s).
Definition uuid_wf (u : list N) : bool := Nat.eqb (length u) 32 && forallb (fun v => (v <? 16)%N) u.
(* a Regex value built by the deserialiser: the wrapped text of a pattern that compiles on its own
   and inside the wrapper *)
Definition rx_wf (rx_ok : list N -> bool) (r : list N) : bool := is_wrapped r && rx_ok r && rx_ok (peel_s r).

Fixpoint cf_wf (rx_ok : list N -> bool) (f : cfilter) : bool :=
  match f with
  | CTrue | CFalse => true
  | CAnd fs | COr fs => forallb (cf_wf rx_ok) fs
  | CNot g => cf_wf rx_ok g
  | CTsBegin z | CTsEnd z => ts_wf z
  | CCode r | CDesc r | CTags r | CComments r | CPAccount r | CPComment r | CPCommodity r => rx_wf rx_ok r
  | CUuid u => uuid_wf u
  | CBBox _ _ _ _ | CBBoxAlt _ _ _ _ _ _ => true
  | CPAmountEq r _ | CPAmountLt r _ | CPAmountGt r _ => rx_wf rx_ok r
  end.
(* the same without the lower bound on instants: what every parsed definition satisfies *)
Fixpoint cf_wf_weak (rx_ok : list N -> bool) (f : cfilter) : bool :=
  match f with
  | CTrue | CFalse => true
  | CAnd fs | COr fs => forallb (cf_wf_weak rx_ok) fs
  | CNot g => cf_wf_weak rx_ok g
  | CTsBegin z | CTsEnd z => ts_in_range z
  | CCode r | CDesc r | CTags r | CComments r | CPAccount r | CPComment r | CPCommodity r => rx_wf rx_ok r
  | CUuid u => uuid_wf u
  | CBBox _ _ _ _ | CBBoxAlt _ _ _ _ _ _ => true
  | CPAmountEq r _ | CPAmountLt r _ | CPAmountGt r _ => rx_wf rx_ok r
  end.

(* instants from 0000-01-01T00:00:00Z on (the four-digit years) *)
Fixpoint cf_year0 (f : cfilter) : bool :=
  match f with
  | CAnd fs | COr fs => forallb cf_year0 fs
  | CNot g => cf_year0 g
  | CTsBegin z | CTsEnd z => (-62167219200 <=? z / ns_per_s)
  | _ => true
  end.

Definition variant_names : list (list N) :=
  [v_NullaryTRUE; v_NullaryFALSE; v_AND; v_OR; v_NOT; v_TxnTSBegin; v_TxnTSEnd; v_TxnCode;
   v_TxnDescription; v_TxnUUID; v_BBoxLatLon; v_BBoxLatLonAlt; v_TxnTags; v_TxnComments;
   v_PostingAccount; v_PostingComment; v_PostingAmountEqual; v_PostingAmountLess;
   v_PostingAmountGreater; v_PostingCommodity].

(* ---- leaves of a definition tree, in document order ---- *)
Inductive leaf : Type :=
| LRegex (s : list N) | LDec (s : list N) | LTs (s : list N) | LUuid (s : list N) | LOther.
Definition leaf_of (k : list N) (v : jv) : option leaf :=
  let txt := match v with JStr s => Some s | JNum s => Some s | _ => None end in
  if str_eqb k k_regex then Some (match v with JStr s => LRegex s | _ => LOther end)
  else if existsb (str_eqb k) [k_amount; k_south; k_west; k_north; k_east; k_depth; k_height]
       then Some (match txt with Some s => LDec s | None => LOther end)
  else if str_eqb k k_begin || str_eqb k k_end then Some (match v with JStr s => LTs s | _ => LOther end)
  else if str_eqb k k_uuid then Some (match v with JStr s => LUuid s | _ => LOther end)
  else None.
Fixpoint leaves (j : jv) : list leaf :=
  match j with
  | JArr l => concat (map leaves l)
  | JObj kvs => concat (map (fun kv => match leaf_of (fst kv) (snd kv) with
                                       | Some l => [l] | None => leaves (snd kv) end) kvs)
  | _ => []
  end.
(* "the same pattern / number / instant / id": patterns as texts, the others as values *)
Definition opt_same {A} (eqb : A -> A -> bool) (a b : option A) : bool :=
  match a, b with Some x, Some y => eqb x y | _, _ => false end.
Definition leaf_same (a b : leaf) : bool :=
  match a, b with
  | LRegex x, LRegex y => str_eqb x y
  | LDec x, LDec y => opt_same drepr_eqb (dec_parse x) (dec_parse y)
  | LTs x, LTs y => opt_same Z.eqb (ts_parse x) (ts_parse y)
  | LUuid x, LUuid y => opt_same (list_eqb N.eqb) (uuid_parse x) (uuid_parse y)
  | _, _ => false
  end.
Definition leaf_in_dom (a : leaf) : bool :=
  match a with
  | LDec x => dec_text_exact x
  | LTs x => ts_text_dom x
  | _ => true
  end.

(* ---- what the implementation returned for one definition text ---- *)
Record obs : Type := mkObs {
  o_json1 : list N;            (* serde_json::to_string of the parsed definition *)
  o_text1 : list N;            (* its Display text (FilterDefZoned, UTC) *)
  o_reparse_ok : bool;         (* from_json_str(json1) succeeded *)
  o_json2 : list N;            (* ... and its serialisation *)
  o_text2 : list N;            (* ... and its Display text *)
  o_leaves_in : list leaf;     (* leaves of the definition that was given *)
  o_leaves1 : list leaf }.     (* leaves of the tree of json1 *)

(* re-serialisation is a fixed point with an identical description, and every pattern, number,
   instant and id of the given definition is still there with the same meaning *)
Definition ObsSpec (o : obs) : Prop :=
  o_reparse_ok o = true /\ o_json2 o = o_json1 o /\ o_text2 o = o_text1 o /\
  Forall2 (fun a b => leaf_same a b = true) (o_leaves_in o) (o_leaves1 o).
Fixpoint c18_forall2b {A B} (p : A -> B -> bool) (a : list A) (b : list B) : bool :=
  match a, b with
  | [], [] => true
  | x :: a', y :: b' => p x y && c18_forall2b p a' b'
  | _, _ => false
  end.
Definition obs_ok (o : obs) : bool :=
  o_reparse_ok o && str_eqb (o_json2 o) (o_json1 o) && str_eqb (o_text2 o) (o_text1 o)
  && c18_forall2b leaf_same (o_leaves_in o) (o_leaves1 o).
