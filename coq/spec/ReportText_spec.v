(* ReportText_spec.v — what a reader (or a text parser such as the one of gen/c17.py) may
   rely on in the text reports: the lines, what the blank-separated fields of a line are,
   where the columns end.  Definitions only: reading functions (split into lines / fields),
   the expected fields, boolean oracles deciding the specification on an OBSERVED text. *)
From TkModel Require Import Base Dec Acct Txn Balance Register Round ReportText.

(* ------------------------------------------------------------------ reading a text *)
(* split at every occurrence of c: "a c b c" -> [a; b; ""] *)
Fixpoint split_on (c : N) (s : str) : list str :=
  match s with
  | [] => [[]]
  | x :: s' =>
      if N.eqb x c then [] :: split_on c s'
      else match split_on c s' with
           | [] => [[x]]
           | w :: ws => (x :: w) :: ws
           end
  end.

Fixpoint forall2b {A B} (p : A -> B -> bool) (la : list A) (lb : list B) : bool :=
  match la, lb with
  | [], [] => true
  | a :: la', b :: lb' => p a b && forall2b p la' lb'
  | _, _ => false
  end.

Definition nonempty (w : str) : bool := match w with [] => false | _ => true end.

(* the lines of a text; a text whose lines all end in '\n' gives its lines followed by "" *)
Definition text_lines (s : str) : list str := split_on ch_nl s.
(* the fields of a line: maximal runs of non-blank characters (str.split() on blanks) *)
Definition words (l : str) : list str := filter nonempty (split_on ch_sp l).

(* a name that is safe inside a line / as a field *)
Definition no_nl (s : str) : Prop := ~ In ch_nl s.
Definition field (s : str) : Prop := s <> [] /\ ~ In ch_sp s /\ ~ In ch_nl s.
Definition opt_field (s : str) : Prop := s = [] \/ field s.
Definition fieldb (s : str) : bool :=
  nonempty s && forallb (fun c => negb (N.eqb c ch_sp) && negb (N.eqb c ch_nl)) s.

(* the characters of a printed figure: digits, '-' and '.' *)
Definition fig_char (c : N) : bool :=
  ((48 <=? c)%N && (c <=? 57)%N) || (c =? 45)%N || (c =? 46)%N.

(* ------------------------------------------------------------------ balance *)
Definition opt_word (c : str) : list str := match c with [] => [] | _ => [c] end.

(* the fields of a balance row line: own sum, tree sum, [commodity], account *)
Definition row_words (sc : scale_cfg) (r : brow) : list str :=
  [shown_text sc (r_own r); shown_text sc (r_tree r)] ++ opt_word (r_comm r) ++ [acct_str (r_acc r)].
(* the fields of a delta line: delta, [commodity] *)
Definition delta_words (sc : scale_cfg) (cd : str * dec) : list str :=
  shown_text sc (snd cd) :: opt_word (fst cd).

Definition is_ruler (c : N) (l : str) : bool := nonempty l && forallb (N.eqb c) l.

(* every commodity of a row has its delta line (Balance.deltas guarantees it) *)
Definition covers (rows : list brow) (deltas : list (str * dec)) : Prop :=
  forall r, In r rows -> In (r_comm r) (map fst deltas).

Definition bal_names_ok (rows : list brow) (deltas : list (str * dec)) : Prop :=
  Forall (fun r => field (acct_str (r_acc r)) /\ opt_field (r_comm r)) rows
  /\ Forall (fun cd => opt_field (fst cd)) deltas.

(* the lines BalanceReporter::txt_report writes after title and underline *)
Definition bal_block_lines (sc : scale_cfg) (rows : list brow) (deltas : list (str * dec)) : list str :=
  match rows with
  | [] => []
  | _ =>
      let asl := left_sum_len sc rows deltas in
      let cml := max_comm_len deltas in
      map (bal_row_line sc asl (filler_len cml) (tree_sum_len sc rows) cml) rows
      ++ [repeat ch_eq (bal_ruler_len asl cml)]
      ++ map (bal_delta_line sc asl) (sort_deltas deltas)
  end.
Definition bal_lines (title : str) (sc : scale_cfg) (rows : list brow) (deltas : list (str * dec)) : list str :=
  title :: repeat ch_dash (length title) :: bal_block_lines sc rows deltas.

(* specification of a block of lines for (rows, deltas): one line per row in row order whose
   fields are the shown own sum, the shown tree sum, the commodity, the account; a ruler;
   one line per delta in ascending commodity order whose fields are the shown delta and the
   commodity *)
Definition bal_block_spec (sc : scale_cfg) (rows : list brow) (deltas : list (str * dec))
           (ls : list str) : Prop :=
  match rows with
  | [] => ls = []
  | _ => exists rl ruler dl,
      ls = rl ++ ruler :: dl
      /\ Forall2 (fun r l => words l = row_words sc r) rows rl
      /\ is_ruler ch_eq ruler = true
      /\ Forall2 (fun cd l => words l = delta_words sc cd) (sort_deltas deltas) dl
  end.

Definition words_eqb (a b : list str) : bool := list_eqb str_eqb a b.

(* the oracle on observed lines *)
Definition bal_block_ok (sc : scale_cfg) (rows : list brow) (deltas : list (str * dec))
           (ls : list str) : bool :=
  match rows with
  | [] => match ls with [] => true | _ => false end
  | _ =>
      let n := length rows in
      list_eqb words_eqb (map words (firstn n ls)) (map (row_words sc) rows)
      && match skipn n ls with
         | ruler :: dl =>
             is_ruler ch_eq ruler
             && list_eqb words_eqb (map words dl) (map (delta_words sc) (sort_deltas deltas))
         | [] => false
         end
  end.

(* the whole balance report text *)
Definition bal_text_spec (title : str) (sc : scale_cfg) (rows : list brow)
           (deltas : list (str * dec)) (text : str) : Prop :=
  exists ls, text_lines text = title :: repeat ch_dash (length title) :: ls ++ [[]]
             /\ bal_block_spec sc rows deltas ls.

Definition bal_text_ok (title : str) (sc : scale_cfg) (rows : list brow)
           (deltas : list (str * dec)) (text : str) : bool :=
  match text_lines text with
  | t :: u :: rest =>
      str_eqb t title && str_eqb u (repeat ch_dash (length title))
      && match rev rest with
         | [] :: rl => bal_block_ok sc rows deltas (rev rl)
         | _ => false
         end
  | _ => false
  end.

(* ------------------------------------------------------------------ balance groups *)
Definition grp_names_ok (groups : list bal_group) : Prop :=
  Forall (fun g => no_nl (bg_title g) /\ bal_names_ok (bg_rows g) (bg_deltas g)
                   /\ covers (bg_rows g) (bg_deltas g)) groups.

Definition balgrp_lines (title : str) (sc : scale_cfg) (groups : list bal_group) : list str :=
  title :: repeat ch_dash (length title)
  :: flat_map (fun g => bal_lines (bg_title g) sc (bg_rows g) (bg_deltas g)) groups.

(* number of lines of a block *)
Definition bal_block_len (rows : list brow) (deltas : list (str * dec)) : nat :=
  match rows with [] => 0 | _ => length rows + 1 + length deltas end.

Fixpoint grp_body_ok (sc : scale_cfg) (groups : list bal_group) (ls : list str) : bool :=
  match groups with
  | [] => match ls with [] => true | _ => false end
  | g :: gs =>
      match ls with
      | t :: u :: rest =>
          let n := bal_block_len (bg_rows g) (bg_deltas g) in
          str_eqb t (bg_title g) && str_eqb u (repeat ch_dash (length (bg_title g)))
          && bal_block_ok sc (bg_rows g) (bg_deltas g) (firstn n rest)
          && grp_body_ok sc gs (skipn n rest)
      | _ => false
      end
  end.

Fixpoint grp_body_spec (sc : scale_cfg) (groups : list bal_group) (ls : list str) : Prop :=
  match groups with
  | [] => ls = []
  | g :: gs => exists bl ls',
      ls = bg_title g :: repeat ch_dash (length (bg_title g)) :: bl ++ ls'
      /\ bal_block_spec sc (bg_rows g) (bg_deltas g) bl
      /\ grp_body_spec sc gs ls'
  end.

Definition grp_text_ok (title : str) (sc : scale_cfg) (groups : list bal_group) (text : str) : bool :=
  match text_lines text with
  | t :: u :: rest =>
      str_eqb t title && str_eqb u (repeat ch_dash (length title))
      && match rev rest with
         | [] :: rl => grp_body_ok sc groups (rev rl)
         | _ => false
         end
  | _ => false
  end.

Definition grp_text_spec (title : str) (sc : scale_cfg) (groups : list bal_group) (text : str) : Prop :=
  exists ls, text_lines text = title :: repeat ch_dash (length title) :: ls ++ [[]]
             /\ grp_body_spec sc groups ls.

(* ------------------------------------------------------------------ register *)
(* the fields of a register row line AFTER the indent and the account name:
   amount, running total, [commodity] *)
Definition reg_row_words (sc : scale_cfg) (r : rrow) : list str :=
  [shown_text sc (p_amount (rr_post r)); shown_text sc (rr_total r)]
  ++ opt_word (p_comm (rr_post r)).

Definition reg_row_names_ok (r : rrow) : Prop :=
  no_nl (acct_str (p_acc (rr_post r))) /\ opt_field (p_comm (rr_post r)) /\ is_conv r = false.

(* the lines of TxnHeader::to_string_with_indent *)
Definition header_lines (indent ts : str) (h : header) : list str :=
  (ts ++ match h_code h with Some c => [32; 40]%N ++ c ++ [41%N] | None => [] end
      ++ match h_desc h with Some d => [32; 39]%N ++ d | None => [] end)
  :: match h_uuid h with
     | Some u => [indent ++ [35; 32; 117; 117; 105; 100; 58; 32]%N ++ u] | None => [] end
  ++ match h_loc h with
     | Some g => [indent ++ [35; 32; 108; 111; 99; 97; 116; 105; 111; 110; 58; 32]%N ++ geo_text g]
     | None => [] end
  ++ match h_tags h with
     | [] => []
     | ts => [indent ++ [35; 32; 116; 97; 103; 115; 58; 32]%N ++ join_with [44; 32]%N ts]
     end
  ++ map (fun c => indent ++ [59; 32]%N ++ c) (h_comments h).

Definition header_names_ok (ts : str) (h : header) : Prop :=
  no_nl ts /\ no_nl (opt_str (h_code h)) /\ no_nl (opt_str (h_desc h)) /\ no_nl (opt_str (h_uuid h))
  /\ Forall no_nl (h_tags h) /\ Forall no_nl (h_comments h).

Definition reg_entry_lines (sc : scale_cfg) (fw : nat) (ts : str) (e : rentry) : list str :=
  match re_rows e with
  | [] => []
  | _ =>
      let ls := map (reg_row_line sc fw) (re_rows e) in
      header_lines indent12 ts (t_hdr (re_txn e)) ++ ls
      ++ [repeat ch_dash (max_len (map (@length N) ls))]
  end.

Definition reg_lines (title : str) (sc : scale_cfg) (fw : nat) (es : list (str * rentry)) : list str :=
  title :: repeat ch_dash (length title)
  :: flat_map (fun te => reg_entry_lines sc fw (fst te) (snd te)) es.

Definition reg_names_ok (es : list (str * rentry)) : Prop :=
  Forall (fun te => header_names_ok (fst te) (t_hdr (re_txn (snd te)))
                    /\ Forall reg_row_names_ok (re_rows (snd te))) es.

(* remove a known prefix *)
Fixpoint strip_prefix (p s : str) : option str :=
  match p, s with
  | [], _ => Some s
  | x :: p', y :: s' => if N.eqb x y then strip_prefix p' s' else None
  | _ :: _, [] => None
  end.

(* oracle for one observed register row line: it starts with indent + account, and the rest
   reads amount, total, [commodity] *)
Definition reg_row_ok (sc : scale_cfg) (r : rrow) (l : str) : bool :=
  match strip_prefix (indent12 ++ acct_str (p_acc (rr_post r))) l with
  | Some rest => words_eqb (words rest) (reg_row_words sc r)
  | None => false
  end.

Definition reg_row_spec (sc : scale_cfg) (r : rrow) (l : str) : Prop :=
  exists rest, l = indent12 ++ acct_str (p_acc (rr_post r)) ++ rest
               /\ words rest = reg_row_words sc r.

(* oracle for the observed lines of a register report body (after title and underline):
   per non-empty entry the header lines, one line per row in row order, a dashed line *)
Fixpoint reg_body_ok (sc : scale_cfg) (es : list (str * rentry)) (ls : list str) : bool :=
  match es with
  | [] => match ls with [] => true | _ => false end
  | (ts, e) :: es' =>
      match re_rows e with
      | [] => reg_body_ok sc es' ls
      | rows =>
          let hl := header_lines indent12 ts (t_hdr (re_txn e)) in
          let nh := length hl in
          let nr := length rows in
          list_eqb str_eqb (firstn nh ls) hl
          && forall2b (reg_row_ok sc) rows (firstn nr (skipn nh ls))
          && match skipn nr (skipn nh ls) with
             | d :: ls' => is_ruler ch_dash d && reg_body_ok sc es' ls'
             | [] => false
             end
      end
  end.

Fixpoint reg_body_spec (sc : scale_cfg) (es : list (str * rentry)) (ls : list str) : Prop :=
  match es with
  | [] => ls = []
  | (ts, e) :: es' =>
      match re_rows e with
      | [] => reg_body_spec sc es' ls
      | rows => exists rl d ls',
          ls = header_lines indent12 ts (t_hdr (re_txn e)) ++ rl ++ d :: ls'
          /\ Forall2 (reg_row_spec sc) rows rl
          /\ is_ruler ch_dash d = true
          /\ reg_body_spec sc es' ls'
      end
  end.

Definition reg_text_ok (title : str) (sc : scale_cfg) (es : list (str * rentry)) (text : str) : bool :=
  match text_lines text with
  | t :: u :: rest =>
      str_eqb t title && str_eqb u (repeat ch_dash (length title))
      && match rev rest with
         | [] :: rl => reg_body_ok sc es (rev rl)
         | _ => false
         end
  | _ => false
  end.

Definition reg_text_spec (title : str) (sc : scale_cfg) (es : list (str * rentry)) (text : str) : Prop :=
  exists ls, text_lines text = title :: repeat ch_dash (length title) :: ls ++ [[]]
             /\ reg_body_spec sc es ls.
