(* Accept_spec.v — "balanced in a single transaction commodity", stated directly. *)
From TkModel Require Import Base Dec Acct Txn Accept.
Local Open Scope Z_scope.

(* value of a decimal as an exact rational is compared through cross-multiplication
   free integers: all scales that occur are bounded by the guard of the theorems *)
Definition v56 (d : dec) : Z := dm d * pow10 (56 - ds d).
Definition dwf56 (d : dec) : Prop := (ds d <= 56)%N.

Definition closing_into (rp : raw_post) (c : list N) : option (ptype * dec) :=
  match rp_unit rp with
  | Some u => match u_closing u with
              | Some (ty, v, c') => if str_eqb c c' then Some (ty, v) else None
              | None => None
              end
  | None => None
  end.

(* posting p (result) of raw posting rp is denominated in c, or priced into c *)
Definition posting_in (c : list N) (rp : raw_post) (p : posting) : Prop :=
  p_amount p = rp_amount rp /\ dm (p_amount p) <> 0 /\ p_txn_comm p = c /\
  ( (p_comm p = c /\ p_txn_amount p = p_amount p)
    \/ (p_comm p <> c /\
        exists ty v, closing_into rp c = Some (ty, v) /\
          match ty with
          | UnitPrice => 0 <= dm v /\ v56 (p_txn_amount p) * pow10 56 = v56 (p_amount p) * v56 v
          | TotalPrice => p_txn_amount p = v /\ ~ (dm v < 0 < dm (p_amount p)) /\ ~ (dm (p_amount p) < 0 < dm v)
          end) ).

Definition Balanced (rt : raw_txn) (ps : list posting) : Prop :=
  exists c,
    let n := length (rt_posts rt) in
    Forall2 (posting_in c) (rt_posts rt) (firstn n ps)
    /\ zsum (map (fun p => v56 (p_txn_amount p)) ps) = 0
    /\ match rt_last rt with
       | None => length ps = n
       | Some a => exists lp, skipn n ps = [lp] /\ p_acc lp = a /\ p_comm lp = c /\ p_txn_comm lp = c
                     /\ dm (p_amount lp) <> 0 /\ p_txn_amount lp = p_amount lp
                     /\ v56 (p_amount lp) = - zsum (map (fun p => v56 (p_txn_amount p)) (firstn n ps))
       end.

(* --- executable oracle on an observed result --- *)
Definition posting_in_b (c : list N) (rp : raw_post) (p : posting) : bool :=
  drepr_eqb (p_amount p) (rp_amount rp) && negb (is_zero (p_amount p)) && str_eqb (p_txn_comm p) c
  && ( (str_eqb (p_comm p) c && drepr_eqb (p_txn_amount p) (p_amount p))
       || (negb (str_eqb (p_comm p) c) &&
           match closing_into rp c with
           | Some (UnitPrice, v) => negb (is_neg v)
                                    && (v56 (p_txn_amount p) * pow10 56 =? v56 (p_amount p) * v56 v)
           | Some (TotalPrice, v) => drepr_eqb (p_txn_amount p) v
                                     && negb (is_neg v && (0 <? dm (p_amount p)))
                                     && negb (is_neg (p_amount p) && (0 <? dm v))
           | None => false
           end) ).

Fixpoint forall2b {A B} (f : A -> B -> bool) (a : list A) (b : list B) : bool :=
  match a, b with
  | [], [] => true
  | x :: a', y :: b' => f x y && forall2b f a' b'
  | _, _ => false
  end.

Definition balanced_b (rt : raw_txn) (ps : list posting) : bool :=
  match ps with
  | [] => false
  | p0 :: _ =>
    let c := p_txn_comm p0 in
    let n := length (rt_posts rt) in
    forall2b (posting_in_b c) (rt_posts rt) (firstn n ps)
    && (zsum (map (fun p => v56 (p_txn_amount p)) ps) =? 0)
    && match rt_last rt with
       | None => Nat.eqb (length ps) n
       | Some a => match skipn n ps with
                   | [lp] => acct_eqb (p_acc lp) a && str_eqb (p_comm lp) c && str_eqb (p_txn_comm lp) c
                             && negb (is_zero (p_amount lp)) && drepr_eqb (p_txn_amount lp) (p_amount lp)
                             && (v56 (p_amount lp) =? - zsum (map (fun p => v56 (p_txn_amount p)) (firstn n ps)))
                   | _ => false
                   end
       end
  end.

(* shapes that can never be balanced: a journal containing one must be rejected *)
Definition must_reject_post (rp : raw_post) : bool :=
  is_zero (rp_amount rp)
  || match rp_unit rp with
     | Some u => match u_closing u with
                 | Some (ty, v, c) =>
                     str_eqb (u_comm u) c
                     || match ty with
                        | UnitPrice => is_neg v
                        | TotalPrice => (is_neg v && (0 <? dm (rp_amount rp))) || (is_neg (rp_amount rp) && (0 <? dm v))
                        end
                 | None => false
                 end
     | None => false
     end.

(* the transaction commodity a raw posting would have *)
Definition raw_txn_comm (rp : raw_post) : list N :=
  match rp_unit rp with
  | None => []
  | Some u => match u_closing u with Some (_, _, c) => c | None => u_comm u end
  end.
Definition raw_txn_value (rp : raw_post) : dec :=
  match rp_unit rp with
  | Some u => match u_closing u with
              | Some (UnitPrice, v, _) => dmul (rp_amount rp) v
              | Some (TotalPrice, v, _) => v
              | None => rp_amount rp
              end
  | None => rp_amount rp
  end.
Definition must_reject (rt : raw_txn) : bool :=
  existsb must_reject_post (rt_posts rt)
  || Nat.ltb 1 (length (distinct_strs (map raw_txn_comm (rt_posts rt))))
  || match rt_last rt with
     | None => negb (zsum (map (fun rp => v56 (raw_txn_value rp)) (rt_posts rt)) =? 0)
     | Some _ => (zsum (map (fun rp => v56 (raw_txn_value rp)) (rt_posts rt)) =? 0)
     end.

(* well-formed raw input: every decimal literal has scale <= 28 (Decimal invariant) *)
Definition unit_wf (u : raw_unit) : Prop :=
  match u_closing u with Some (_, v, _) => dwf v | None => True end.
Definition raw_post_wf (rp : raw_post) : Prop :=
  dwf (rp_amount rp) /\ match rp_unit rp with Some u => unit_wf u | None => True end.
Definition raw_wf (rt : raw_txn) : Prop := Forall raw_post_wf (rt_posts rt).
