(* Balance_spec.v — what the balance report must show, stated directly on the postings. *)
From TkModel Require Import Base Dec Acct Balance.
Local Open Scope Z_scope.

Definition amt28 (p : bpost) : Z := d28 (bp_amt p).

(* well-formed inputs: what AccountTreeNode::from and Decimal guarantee *)
Definition comp_ok (c : list N) : Prop := c <> [] /\ ~ In colon c.
Definition acct_wf (a : acct) : Prop := a <> [] /\ Forall comp_ok a.
Definition bpost_wf (p : bpost) : Prop := dwf (bp_amt p) /\ acct_wf (bp_acc p).

(* exact sum of the postings to exactly this (account, commodity) *)
Definition spec_own (ps : list bpost) (k : key) : Z :=
  zsum (map amt28 (filter (fun p => key_eqb (bp_key p) k) ps)).

(* exact sum of the postings to this account or any descendant, same commodity *)
Definition below (k : key) (p : bpost) : bool :=
  is_prefix (fst k) (bp_acc p) && str_eqb (snd k) (bp_comm p).
Definition spec_tree (ps : list bpost) (k : key) : Z :=
  zsum (map amt28 (filter (below k) ps)).

(* the rows: every posted (account, commodity) and all its ancestors *)
Fixpoint prefixes_from (n : nat) (a : acct) : list acct :=
  match n with
  | O => []
  | S n' => prefixes_from n' a ++ [firstn n a]
  end.
Definition ancestors_and_self (a : acct) : list acct := prefixes_from (length a) a.
Definition spec_keys (ps : list bpost) : list key :=
  flat_map (fun p => map (fun a => (a, bp_comm p)) (ancestors_and_self (bp_acc p))) ps.

Definition key_in (k : key) (l : list key) : bool := existsb (key_eqb k) l.

(* strictly ascending by key_cmp *)
Fixpoint strictly_sorted (l : list key) : bool :=
  match l with
  | [] => true
  | k :: l' => match l' with
               | [] => true
               | k' :: _ => match key_cmp k k' with Lt => strictly_sorted l' | _ => false end
               end
  end.

(* the delta of a commodity: sum of the listed rows' own sums *)
Definition spec_delta (rows : list brow) (c : str) : Z :=
  zsum (map (fun r => d28 (r_own r)) (filter (fun r => str_eqb (r_comm r) c) rows)).

(* --- executable oracle: does an observed report satisfy the specification? --- *)
Definition rows_ok (ps : list bpost) (rows : list brow) : bool :=
  forallb (fun r => (d28 (r_own r) =? spec_own ps (r_key r))
                    && (d28 (r_tree r) =? spec_tree ps (r_key r))) rows.

Definition keys_ok (ps : list bpost) (rows : list brow) : bool :=
  let ks := map r_key rows in
  strictly_sorted ks
  && forallb (fun k => key_in k (spec_keys ps)) ks
  && forallb (fun k => key_in k ks) (spec_keys ps).

Definition deltas_ok (rows : list brow) (ds : list (str * dec)) : bool :=
  forallb (fun cd => d28 (snd cd) =? spec_delta rows (fst cd)) ds
  && forallb (fun r => existsb (fun cd => str_eqb (fst cd) (r_comm r)) ds) rows
  && forallb (fun cd => existsb (fun r => str_eqb (fst cd) (r_comm r)) rows) ds.

(* unselected report *)
Definition report_all_ok (ps : list bpost) (rep : bal_report) : bool :=
  rows_ok ps (b_rows rep) && keys_ok ps (b_rows rep) && deltas_ok (b_rows rep) (b_deltas rep).
