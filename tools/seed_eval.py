#!/usr/bin/env python3
"""tools/seed_eval.py <worktree> <A|B|...> <Cxx> [more checks...]
Confirms a seeded change in its scratch worktree (compiles, existing tests still pass, the
demonstration passes without and fails with the change), runs the given checks against the
worktree (VERIF_REPO) with the change applied, and stores everything under /verif/seeded/."""
import json, os, re, shutil, subprocess, sys, time
V = os.path.dirname(os.path.dirname(os.path.abspath(__file__)))
wt, var, checks = sys.argv[1], sys.argv[2], sys.argv[3:]
sd = os.path.join(wt, os.environ.get("SEEDED_DIR", "SEEDED"), var)
meta = json.load(open(os.path.join(sd, "meta.json")))
prop = meta.get("property", checks[0])
env = dict(os.environ, CARGO_NET_OFFLINE="true", CARGO_TARGET_DIR=os.path.join(wt, "target"))

def sh(cmd, cwd=wt, timeout=3000, extra=None):
    e = dict(env); e.update(extra or {})
    for k in [k for k, v in e.items() if v is None]:
        del e[k]
    p = subprocess.run(cmd, cwd=cwd, env=e, capture_output=True, text=True, timeout=timeout, shell=isinstance(cmd, str))
    return p.returncode, p.stdout + p.stderr

demos = [f for f in os.listdir(sd) if f.endswith(".rs")]
scripts = [f for f in os.listdir(sd) if f.endswith(".sh")]
res = {"worktree": wt, "variant": var}
sh("git checkout -q -- . && git clean -fdq -e 'SEEDED*' -e target")
def place_demos():
    for d in demos:
        crate = "tackler-core"
        txt = open(os.path.join(sd, d)).read()
        if "tackler_core" not in txt and "tackler_api" in txt: crate = "tackler-api"
        os.makedirs(os.path.join(wt, crate, "tests"), exist_ok=True)
        shutil.copy(os.path.join(sd, d), os.path.join(wt, crate, "tests", d))
def run_demos():
    out = {}
    for d in demos:
        crate = "tackler-core"
        txt = open(os.path.join(sd, d)).read()
        if "tackler_core" not in txt and "tackler_api" in txt: crate = "tackler-api"
        rc, o = sh(["cargo", "test", "--offline", "-p", crate, "--test", d[:-3]])
        m = re.findall(r"test result: (\w+)\. (\d+) passed; (\d+) failed", o)
        out[d] = {"rc": rc, "summary": m[-1] if m else o[-300:]}
    for s in scripts:
        rc, o = sh(["bash", os.path.join(sd, s)], extra={"WT": wt})
        out[s] = {"rc": rc, "tail": o[-300:]}
    return out
place_demos()
res["demo_without_change"] = run_demos()
rc, o = sh(["git", "apply", os.path.join(sd, "patch.diff")])
if rc != 0:
    print("patch does not apply:", o); sys.exit(2)
rc, o = sh(["cargo", "build", "--offline"])
res["compiles"] = rc == 0
res["demo_with_change"] = run_demos()
# existing tests (demo files removed for this run)
for d in demos:
    for crate in ("tackler-core", "tackler-api"):
        p = os.path.join(wt, crate, "tests", d)
        if os.path.exists(p): os.remove(p)
rc, o = sh(["cargo", "test", "--workspace", "--no-fail-fast", "--offline"])
failed = sorted(set(re.findall(r"^test (\S+) \.\.\. FAILED", o, re.M)))
res["existing_tests_failed"] = failed
res["existing_tests_ok"] = all("normal_txns" in f or "test_git_error_reporting" in f for f in failed)
passed = sum(int(x) for x in re.findall(r"test result: \w+\. (\d+) passed", o))
res["existing_tests_passed"] = passed
# the checks, against the worktree with the change applied
res["checks"] = {}
for c in checks:
    t0 = time.time()
    rc, o = sh([os.path.join(V, "check"), c], cwd=V, extra={"VERIF_REPO": wt, "CARGO_TARGET_DIR": None}, timeout=3000)
    lines = [l for l in o.split("\n") if l.startswith(("VIOLATION", "OK ", "KNOWN-FINDING", "INFRA"))]
    res["checks"][c] = {"exit": rc, "lines": lines[:6], "wall_s": round(time.time() - t0, 1)}
    # keep the first replay for the record
    m = re.search(r"replay=(\S+)", "\n".join(lines))
    if m and os.path.exists(m.group(1)):
        res["checks"][c]["first_replay_what"] = json.load(open(m.group(1))).get("what")
sh("git checkout -q -- . && git clean -fdq -e 'SEEDED*' -e target")
out = os.path.join(V, "seeded", "%s-%s%s" % (prop, os.environ.get("SEEDED_TAG", ""), var))
os.makedirs(out, exist_ok=True)
shutil.copy(os.path.join(sd, "patch.diff"), out)
for d in demos + scripts:
    shutil.copy(os.path.join(sd, d), out)
meta["confirmed_by_integrator"] = res
json.dump(meta, open(os.path.join(out, "meta.json"), "w"), indent=1)
print(json.dumps(res, indent=1))
