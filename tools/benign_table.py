#!/usr/bin/env python3
"""prints the markdown table of DESIGN.md section 13 from benign/*/meta.json"""
import json, os, glob
V = os.path.dirname(os.path.dirname(os.path.abspath(__file__)))
NOTES = {"B3-1": "alarmed at first: `./check C10` reported `no-failing-input-found` (T02's text model pinned the wording of the WARNING comment); the comment block is now an input of the model (section 12)"}
print("| benign change | area | what it changes | visible bytes | existing tests | checks run | alarms |")
print("|---|---|---|---|---|---|---|")
for d in sorted(glob.glob(os.path.join(V, "benign", "*", "meta.json"))):
    m = json.load(open(d)); e = m["evaluated_by_integrator"]
    name = os.path.basename(os.path.dirname(d))
    bad = [c for c, v in e["checks"].items() if v["exit"] != 0]
    print("| `benign/%s` | %s | %s | %s | %s pass | %d | %s%s |" % (
        name, ", ".join(m.get("files_changed", []))[:110], (m.get("title") or "").replace("|", "/")[:170],
        (m.get("visible_changes") or "none").replace("|", "/").replace("\n", " ")[:140], e.get("existing_tests_passed"),
        len(e["checks"]), ", ".join(bad) or "none", (" (" + NOTES[name] + ")") if name in NOTES else ""))
