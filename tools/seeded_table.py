#!/usr/bin/env python3
"""prints the markdown table of DESIGN.md section 11 from seeded/*/meta.json"""
import json, os, glob
V = os.path.dirname(os.path.dirname(os.path.abspath(__file__)))
NOTES = json.load(open(os.path.join(V, "seeded", "notes.json"))) if os.path.exists(os.path.join(V, "seeded", "notes.json")) else {}
print("| seeded change | property | what it breaks / what it needs | existing tests | caught by | how reported |")
print("|---|---|---|---|---|---|")
for d in sorted(glob.glob(os.path.join(V, "seeded", "*", "meta.json"))):
    m = json.load(open(d))
    name = os.path.basename(os.path.dirname(d))
    c = m.get("confirmed_by_integrator", {})
    chk = c.get("checks", {})
    caught = ", ".join("`./check %s`" % k for k, v in chk.items() if v["exit"] == 1) or "**missed**"
    how = "; ".join(sorted({(v.get("first_replay_what") or "")[:90] for v in chk.values() if v["exit"] == 1}))
    note = NOTES.get(name, "")
    print("| `seeded/%s` | %s | %s — needs: %s | %s pass, %s | %s%s | %s |" % (
        name, m.get("property"), (m.get("what_breaks") or "").replace("|", "/").replace("\n", " ")[:230],
        (m.get("needs_to_manifest") or "").replace("|", "/").replace("\n", " ")[:200],
        c.get("existing_tests_passed"), "only the 3 baseline git_txns failures" if c.get("existing_tests_ok") else "OTHER FAILURES",
        caught, (" (" + note + ")") if note else "", how))
