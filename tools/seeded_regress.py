#!/usr/bin/env python3
"""tools/seeded_regress.py <worktree> <shard> <nshards> — regression of detection power: applies every kept seeded change
(seeded/<id>/patch.diff) to a scratch worktree of /repo's HEAD and re-runs the checks that reported it when it was recorded
(meta.json: confirmed_by_integrator.checks with exit 1), seed 1, quick tier. Result per id in seeded/regress-<shard>.json."""
import json, os, subprocess, sys, glob, re
V = os.path.dirname(os.path.dirname(os.path.abspath(__file__)))
wt, shard, n = sys.argv[1], int(sys.argv[2]), int(sys.argv[3])
def sh(cmd, cwd=None, env=None, timeout=3000):
    e = dict(os.environ); e.update(env or {}); e.pop("CARGO_TARGET_DIR", None)
    p = subprocess.run(cmd, cwd=cwd, env=e, capture_output=True, text=True, timeout=timeout)
    return p.returncode, p.stdout + p.stderr
ids = sorted(os.path.basename(os.path.dirname(p)) for p in glob.glob(os.path.join(V, "seeded", "*", "meta.json")))
out = os.path.join(V, "seeded", "regress-%d.json" % shard)
res = json.load(open(out)) if os.path.exists(out) else {}
for i, sid in enumerate(ids):
    if i % n != shard or sid in res:
        continue
    m = json.load(open(os.path.join(V, "seeded", sid, "meta.json")))
    chk = [c for c, v in m.get("confirmed_by_integrator", {}).get("checks", {}).items() if v.get("exit") == 1]
    sh(["git", "checkout", "-q", "--", "."], cwd=wt); sh(["git", "clean", "-fdq", "-e", "target"], cwd=wt)
    rc, o = sh(["git", "apply", os.path.join(V, "seeded", sid, "patch.diff")], cwd=wt)
    r = {"checks_then": chk}
    if rc != 0:
        r["applies"] = False
    else:
        r["applies"] = True; r["now"] = {}
        for c in chk:
            rc, o = sh([os.path.join(V, "check"), c], cwd=V, env={"VERIF_REPO": wt})
            r["now"][c] = rc
    res[sid] = r
    json.dump(res, open(out, "w"), indent=1)
    print(sid, r, flush=True)
sh(["git", "checkout", "-q", "--", "."], cwd=wt)
