#!/usr/bin/env python3
"""tools/benign_eval.py <worktree> <n> [checks...]
Evaluates a behaviour-preserving ("benign") change kept in <worktree>/BENIGN/<n>/: applies it,
confirms it compiles and the existing tests pass, runs the given checks (default: all 19) against
the worktree (VERIF_REPO) and stores everything under /verif/benign/<area>-<n>/. A VIOLATION line
here is a false alarm candidate (or shows that the change was not benign after all)."""
import json, os, re, shutil, subprocess, sys, time
V = os.path.dirname(os.path.dirname(os.path.abspath(__file__)))
wt, n = sys.argv[1], sys.argv[2]
checks = sys.argv[3:] or (["C%02d" % i for i in range(1, 20)] + os.environ.get("BENIGN_EXTRA", "").split())
sd = os.path.join(wt, "BENIGN", n)
meta = json.load(open(os.path.join(sd, "meta.json")))
env = dict(os.environ, CARGO_NET_OFFLINE="true", CARGO_TARGET_DIR=os.path.join(wt, "target"))


def sh(cmd, cwd=wt, timeout=3000, extra=None):
    e = dict(env); e.update(extra or {})
    for k in [k for k, v in e.items() if v is None]:
        del e[k]
    p = subprocess.run(cmd, cwd=cwd, env=e, capture_output=True, text=True, timeout=timeout, shell=isinstance(cmd, str))
    return p.returncode, p.stdout + p.stderr


res = {"worktree": wt, "n": n}
sh("git checkout -q -- . && git clean -fdq -e BENIGN -e target")
rc, o = sh(["git", "apply", os.path.join(sd, "patch.diff")])
if rc != 0:
    print("patch does not apply:", o); sys.exit(2)
rc, o = sh(["cargo", "build", "--offline"])
res["compiles"] = rc == 0
if "--no-tests" not in os.environ.get("BENIGN_OPTS", ""):
    rc, o = sh(["cargo", "test", "--workspace", "--no-fail-fast", "--offline"])
    failed = sorted(set(re.findall(r"^test (\S+) \.\.\. FAILED", o, re.M)))
    res["existing_tests_failed"] = failed
    res["existing_tests_ok"] = all("normal_txns" in f or "test_git_error_reporting" in f for f in failed)
    res["existing_tests_passed"] = sum(int(x) for x in re.findall(r"test result: \w+\. (\d+) passed", o))
res["checks"] = {}
for c in checks:
    t0 = time.time()
    rc, o = sh([os.path.join(V, "check"), c], cwd=V, extra={"VERIF_REPO": wt, "CARGO_TARGET_DIR": None}, timeout=3000)
    lines = [l for l in o.split("\n") if l.startswith(("VIOLATION", "OK ", "INFRA"))]
    res["checks"][c] = {"exit": rc, "lines": lines[:4], "wall_s": round(time.time() - t0, 1)}
    m = re.search(r"replay=(\S+)", "\n".join(lines))
    if m and os.path.exists(m.group(1)):
        res["checks"][c]["first_replay_what"] = json.load(open(m.group(1))).get("what")
        keep = os.path.join(V, ".cache", "benign-replays"); os.makedirs(keep, exist_ok=True)
        shutil.copy(m.group(1), os.path.join(keep, "%s-%s-%s.json" % (meta.get("area"), n, c)))
    if rc not in (0, 1) and not lines:
        res["checks"][c]["tail"] = o[-600:]
sh("git checkout -q -- . && git clean -fdq -e BENIGN -e target")
out = os.path.join(V, "benign", "%s-%s" % (meta.get("area"), n))
os.makedirs(out, exist_ok=True)
shutil.copy(os.path.join(sd, "patch.diff"), out)
if os.path.exists(os.path.join(sd, "rationale.md")):
    shutil.copy(os.path.join(sd, "rationale.md"), out)
prev = os.path.join(out, "meta.json")
if os.path.exists(prev) and sys.argv[3:]:
    # a re-run of single checks: merge into the earlier record
    old = json.load(open(prev)).get("evaluated_by_integrator", {})
    merged = dict(old.get("checks", {})); merged.update(res["checks"])
    for k, v in old.items():
        res.setdefault(k, v)
    res["checks"] = merged
meta["evaluated_by_integrator"] = res
json.dump(meta, open(os.path.join(out, "meta.json"), "w"), indent=1)
print(json.dumps({c: (v["exit"], v["lines"][:1], v.get("first_replay_what", "")[:120]) for c, v in res["checks"].items()}, indent=0))
print({k: res.get(k) for k in ("compiles", "existing_tests_ok", "existing_tests_passed")})
