#!/usr/bin/env python3
"""tools/benign_recheck.py <worktree> <shard> <nshards> — re-runs every kept behaviour-preserving change (benign/<id>/patch.diff)
against the CURRENT checks (all 19 + T04 T06 T07), HEAD of /repo; result in benign/recheck-<shard>.json"""
import json, os, subprocess, sys, glob
V = os.path.dirname(os.path.dirname(os.path.abspath(__file__)))
wt, shard, n = sys.argv[1], int(sys.argv[2]), int(sys.argv[3])
CHECKS = ["C%02d" % i for i in range(1, 20)] + ["T04", "T06", "T07"]
def sh(cmd, cwd=None, env=None, timeout=3000):
    e = dict(os.environ); e.update(env or {}); e.pop("CARGO_TARGET_DIR", None)
    p = subprocess.run(cmd, cwd=cwd, env=e, capture_output=True, text=True, timeout=timeout)
    return p.returncode, p.stdout + p.stderr
ids = sorted(os.path.basename(os.path.dirname(p)) for p in glob.glob(os.path.join(V, "benign", "*", "patch.diff")))
out = os.path.join(V, "benign", "recheck-%d.json" % shard)
res = json.load(open(out)) if os.path.exists(out) else {}
for i, bid in enumerate(ids):
    if i % n != shard or bid in res:
        continue
    sh(["git", "checkout", "-q", "--", "."], cwd=wt); sh(["git", "clean", "-fdq", "-e", "target"], cwd=wt)
    rc, o = sh(["git", "apply", os.path.join(V, "benign", bid, "patch.diff")], cwd=wt)
    r = {"applies": rc == 0}
    if rc == 0:
        r["checks"] = {}
        for c in CHECKS:
            rc, o = sh([os.path.join(V, "check"), c], cwd=V, env={"VERIF_REPO": wt})
            r["checks"][c] = rc
    res[bid] = r
    json.dump(res, open(out, "w"), indent=1)
    print(bid, r.get("applies"), {k: v for k, v in r.get("checks", {}).items() if v != 0}, flush=True)
sh(["git", "checkout", "-q", "--", "."], cwd=wt)
