#!/usr/bin/env python3
"""tools/revert_eval.py [Fxx ...] — for every fixed finding of known-findings.jsonl: revert its fix: commit(s) in a
scratch worktree of /repo (git revert -n), run the finding's check against that tree (VERIF_REPO) and record whether the
violation is reported again. Results: /verif/seeded/reverts.json (table in DESIGN.md section 11)."""
import json, os, subprocess, sys, hashlib, shutil
V = os.path.dirname(os.path.dirname(os.path.abspath(__file__)))
WT = "/tmp/revert-wt"
EXTRA = {"F20": ["1515de5", "d171873", "2cae891"], "F25": ["79d69e8", "da90aec"],
         "F12": ["71b3628", "7310e64"]}      # F12's guard is redundant since F21's repair: revert both      # several commits (newest first)
ALSO = {"F17": ["C05"], "F26": ["C09", "T04"], "F8": ["C02"], "F10": ["C13"]}
def sh(cmd, cwd=None, env=None, timeout=3000):
    e = dict(os.environ); e.update(env or {}); e.pop("CARGO_TARGET_DIR", None)
    p = subprocess.run(cmd, cwd=cwd, env=e, capture_output=True, text=True, timeout=timeout, shell=isinstance(cmd, str))
    return p.returncode, p.stdout + p.stderr
fs = [json.loads(l) for l in open(os.path.join(V, "known-findings.jsonl"))]
want = set(sys.argv[1:])
outp = os.path.join(V, "seeded", "reverts.json")
res = json.load(open(outp)) if os.path.exists(outp) else {}
for f in fs:
    if f.get("status") != "fixed" or (want and f["id"] not in want):
        continue
    commits = EXTRA.get(f["id"], [f["commit"]])
    sh(["git", "-C", "/repo", "worktree", "remove", "--force", WT]); shutil.rmtree(WT, ignore_errors=True)
    sh(["git", "-C", "/repo", "worktree", "prune"])
    rc, o = sh(["git", "-C", "/repo", "worktree", "add", "-q", "--detach", WT, "HEAD"])
    ok = True
    for c in commits:
        rc, o = sh(["git", "revert", "-n", c], cwd=WT)
        if rc != 0:
            ok = False; break
    r = {"property": f["property"], "commits": commits, "what": f["what"][:160]}
    if not ok:
        r["revert"] = "does not revert cleanly on HEAD (later commits touch the same lines)"
    else:
        rc, o = sh(["cargo", "build", "--offline"], cwd=WT, env={"CARGO_NET_OFFLINE": "true", "CARGO_TARGET_DIR_X": ""})
        r["revert"] = "clean"; r["checks"] = {}
        for chk in [f["property"]] + ALSO.get(f["id"], []):
            rc, o = sh([os.path.join(V, "check"), chk], cwd=V, env={"VERIF_REPO": WT})
            lines = [l for l in o.split("\n") if l.startswith(("VIOLATION", "OK ", "INFRA"))]
            what = None
            import re
            m = re.search(r"replay=(\S+)", "\n".join(lines))
            if m and os.path.exists(m.group(1)):
                what = json.load(open(m.group(1))).get("what")
            r["checks"][chk] = {"exit": rc, "first": lines[:1], "what": what}
    res[f["id"]] = r
    json.dump(res, open(outp, "w"), indent=1)
    print(f["id"], r.get("revert"), {k: (v["exit"], (v["what"] or "")[:80]) for k, v in r.get("checks", {}).items()}, flush=True)
tag = hashlib.sha256(WT.encode()).hexdigest()[:10]
sh(["git", "-C", "/repo", "worktree", "remove", "--force", WT]); sh(["git", "-C", "/repo", "worktree", "prune"])
shutil.rmtree(os.path.join(V, ".cache", "alt-" + tag), ignore_errors=True)
