From Coq Require Import ZArith List Lia Bool Arith PeanoNat.
Import ListNotations.
Require Import B.
Open Scope Z_scope.

Definition ind (b : bool) : Z := if b then 1 else 0.

Lemma zsum_app a b : zsum (a ++ b) = zsum a + zsum b.
Proof. unfold zsum. induction a as [|x a IH]; cbn [app fold_right]; lia. Qed.

(* --- path lemmas --- *)
Lemma removelast_firstn_len {A} (l : list A) : removelast l = firstn (length l - 1) l.
Proof.
  induction l as [|x l IH]; [reflexivity|].
  destruct l as [|y l]; [reflexivity|].
  cbn [removelast length] in *. rewrite IH. cbn. f_equal. replace (length l - 0)%nat with (length l) by lia. reflexivity.
Qed.

Lemma is_prefix_spec a b : is_prefix a b = true <-> firstn (length a) b = a.
Proof. unfold is_prefix. apply path_eqb_spec. Qed.

Lemma is_prefix_len a b : is_prefix a b = true -> (length a <= length b)%nat.
Proof.
  rewrite is_prefix_spec. intros H. rewrite <- H at 1. rewrite firstn_length. lia.
Qed.

Lemma is_child_spec me c : is_child me c = true <-> (c <> [] /\ removelast c = me).
Proof.
  unfold is_child. destruct c as [|x c]; [split; [discriminate| intros [H _]; congruence]|].
  rewrite path_eqb_spec. split; [intros H; split; [discriminate|exact H] | intros [_ H]; exact H].
Qed.

Lemma child_len me c : is_child me c = true -> length c = S (length me).
Proof.
  rewrite is_child_spec. intros [Hne H]. subst me. rewrite removelast_firstn_len, firstn_length.
  destruct c; [congruence|cbn; lia].
Qed.

Lemma child_prefix me c : is_child me c = true -> firstn (length me) c = me.
Proof.
  intros H. pose proof (child_len _ _ H) as L. apply is_child_spec in H. destruct H as [_ H].
  rewrite removelast_firstn_len in H. rewrite <- H at 2. f_equal. lia.
Qed.

Lemma firstn_firstn_le {A} (l : list A) n m : (n <= m)%nat -> firstn n (firstn m l) = firstn n l.
Proof. intros H. rewrite firstn_firstn. f_equal. lia. Qed.

(* the unique child of [me] on the way to [r] *)
Lemma step_child me r : is_prefix me r = true -> r <> me ->
  let c0 := firstn (S (length me)) r in
  is_child me c0 = true /\ is_prefix c0 r = true /\ (0 < S (length me) <= length r)%nat.
Proof.
  intros Hp Hne c0. pose proof (is_prefix_len _ _ Hp) as Hl. apply is_prefix_spec in Hp.
  assert (length me < length r)%nat as Hlt.
  { destruct (Nat.eq_dec (length me) (length r)) as [E|E]; [|lia].
    exfalso. apply Hne. rewrite <- Hp. rewrite E. symmetry. apply firstn_all. }
  assert (length c0 = S (length me)) as Lc by (unfold c0; rewrite firstn_length; lia).
  split; [|split; [|lia]].
  - apply is_child_spec. split.
    + intros E. rewrite E in Lc. discriminate.
    + rewrite removelast_firstn_len, Lc. unfold c0. rewrite firstn_firstn_le by lia.
      replace (S (length me) - 1)%nat with (length me) by lia. exact Hp.
  - apply is_prefix_spec. rewrite Lc. reflexivity.
Qed.

Lemma child_on_path_unique me r c : is_child me c = true -> is_prefix c r = true ->
  c = firstn (S (length me)) r /\ is_prefix me r = true /\ r <> me.
Proof.
  intros Hc Hp. pose proof (child_len _ _ Hc) as L. pose proof (is_prefix_len _ _ Hp) as Hl.
  apply is_prefix_spec in Hp. split; [rewrite <- L; symmetry; exact Hp|]. split.
  - apply is_prefix_spec. rewrite <- (child_prefix _ _ Hc) at 2. rewrite <- Hp.
    rewrite firstn_firstn_le by lia. reflexivity.
  - intros E. subst r. lia.
Qed.
