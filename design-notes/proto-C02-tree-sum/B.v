From Coq Require Import ZArith List Lia Bool Arith PeanoNat.
Import ListNotations.
Open Scope Z_scope.

Definition path := list nat.
Definition path_eqb (a b : path) : bool := if list_eq_dec Nat.eq_dec a b then true else false.
Lemma path_eqb_spec a b : path_eqb a b = true <-> a = b.
Proof. unfold path_eqb; destruct (list_eq_dec Nat.eq_dec a b); split; congruence. Qed.

Definition is_prefix (a b : path) : bool := path_eqb (firstn (length a) b) a.
Definition is_child (me r : path) : bool :=
  match r with [] => false | _ => path_eqb (removelast r) me end.

Definition row := (path * Z)%type.
Definition zsum (l : list Z) := fold_right Z.add 0 l.

(* model: recursive tree sum over a flat row list, as get_balance_tree_nodes *)
Fixpoint tree (fuel : nat) (rows : list row) (me : row) : Z :=
  match fuel with
  | O => 0
  | S f => snd me + zsum (map (tree f rows) (filter (fun r => is_child (fst me) (fst r)) rows))
  end.

(* spec: sum of own sums of all rows below me (inclusive) *)
Definition spec (rows : list row) (me : path) : Z :=
  zsum (map snd (filter (fun r => is_prefix me (fst r)) rows)).

Definition closed (rows : list row) : Prop :=
  forall r, In r rows -> forall n, (0 < n <= length (fst r))%nat -> In (firstn n (fst r)) (map fst rows).
Definition maxdepth (rows : list row) : nat := fold_right Nat.max 0%nat (map (fun r => length (fst r)) rows).
