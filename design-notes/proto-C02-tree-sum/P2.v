From Coq Require Import ZArith List Lia Bool Arith PeanoNat.
Import ListNotations.
Require Import B P1.
Open Scope Z_scope.

Lemma zsum_map_ext {A} (f g : A -> Z) l : (forall x, In x l -> f x = g x) -> zsum (map f l) = zsum (map g l).
Proof. unfold zsum. induction l as [|x l IH]; intros H; cbn [map fold_right]; [reflexivity|].
  rewrite (H x (or_introl eq_refl)), IH; [reflexivity|]. intros y Hy. apply H. right. exact Hy. Qed.

Lemma zsum_map_add {A} (f g : A -> Z) l : zsum (map (fun x => f x + g x) l) = zsum (map f l) + zsum (map g l).
Proof. unfold zsum. induction l as [|x l IH]; cbn [map fold_right]; lia. Qed.

Lemma zsum_map_mul_r {A} (f : A -> Z) k l : zsum (map (fun x => f x * k) l) = zsum (map f l) * k.
Proof. unfold zsum. induction l as [|x l IH]; cbn [map fold_right]; lia. Qed.

Lemma zsum_map_zero {A} (l : list A) : zsum (map (fun _ => 0) l) = 0.
Proof. unfold zsum. induction l as [|x l IH]; cbn [map fold_right]; lia. Qed.

Lemma zsum_map_filter {A} (p : A -> bool) (g : A -> Z) l :
  zsum (map g (filter p l)) = zsum (map (fun x => ind (p x) * g x) l).
Proof. unfold zsum, ind. induction l as [|x l IH]; cbn [filter map fold_right]; [reflexivity|].
  destruct (p x); cbn [map fold_right]; lia. Qed.

Lemma zsum_exchange {A B} (f : A -> B -> Z) (cs : list A) (rs : list B) :
  zsum (map (fun r => zsum (map (fun c => f c r) cs)) rs) =
  zsum (map (fun c => zsum (map (fun r => f c r) rs)) cs).
Proof.
  induction rs as [|r rs IH].
  - cbn [map]. change (zsum []) with 0. symmetry. apply zsum_map_zero.
  - cbn [map]. change (zsum (?a :: ?l)) with (a + zsum l). rewrite IH.
    rewrite <- zsum_map_add. apply zsum_map_ext. intros c _. reflexivity.
Qed.

(* --- unique keys --- *)
Lemma key_count_notin (rows : list row) k : ~ In k (map fst rows) ->
  zsum (map (fun c => ind (path_eqb (fst c) k)) rows) = 0.
Proof.
  unfold zsum. induction rows as [|c rows IH]; intros H; cbn [map fold_right]; [reflexivity|].
  cbn [map In] in H. rewrite IH by tauto.
  destruct (path_eqb (fst c) k) eqn:E; [apply path_eqb_spec in E; tauto | reflexivity].
Qed.

Lemma key_count_in (rows : list row) k : NoDup (map fst rows) -> In k (map fst rows) ->
  zsum (map (fun c => ind (path_eqb (fst c) k)) rows) = 1.
Proof.
  induction rows as [|c rows IH]; intros Hnd Hin; [destruct Hin|].
  cbn [map] in *. inversion Hnd as [|? ? Hni Hnd']; subst.
  change (zsum (?a :: ?l)) with (a + zsum l).
  destruct (path_eqb (fst c) k) eqn:E.
  - apply path_eqb_spec in E. subst k. rewrite key_count_notin by exact Hni. reflexivity.
  - destruct Hin as [Hin|Hin]; [apply path_eqb_spec in Hin; congruence|].
    rewrite IH by assumption. reflexivity.
Qed.

Lemma lookup_sum (rows : list row) me : NoDup (map fst rows) -> In me rows ->
  zsum (map (fun r => ind (path_eqb (fst r) (fst me)) * snd r) rows) = snd me.
Proof.
  induction rows as [|c rows IH]; intros Hnd Hin; [destruct Hin|].
  cbn [map] in *. inversion Hnd as [|? ? Hni Hnd']; subst.
  change (zsum (?a :: ?l)) with (a + zsum l).
  destruct Hin as [Hin|Hin].
  - subst c. replace (path_eqb (fst me) (fst me)) with true by (symmetry; apply path_eqb_spec; reflexivity).
    rewrite (zsum_map_ext _ (fun _ => 0)); [rewrite zsum_map_zero; cbn [ind]; lia|].
    intros r Hr. destruct (path_eqb (fst r) (fst me)) eqn:E; [|reflexivity].
    apply path_eqb_spec in E. exfalso. apply Hni. rewrite <- E. apply in_map. exact Hr.
  - destruct (path_eqb (fst c) (fst me)) eqn:E.
    + apply path_eqb_spec in E. exfalso. apply Hni. rewrite E. apply in_map. exact Hin.
    + rewrite IH by assumption. cbn [ind]. lia.
Qed.

Lemma is_prefix_refl a : is_prefix a a = true.
Proof. apply is_prefix_spec. apply firstn_all. Qed.

(* decomposition of "below me" into "is me" + "below exactly one child of me" *)
Lemma decompose (rows : list row) me r : NoDup (map fst rows) -> closed rows -> In r rows ->
  ind (is_prefix me (fst r)) =
  ind (path_eqb (fst r) me) + zsum (map (fun c => ind (is_child me (fst c) && is_prefix (fst c) (fst r))) rows).
Proof.
  intros Hnd Hcl Hr. destruct (is_prefix me (fst r)) eqn:Hp.
  - destruct (path_eqb (fst r) me) eqn:E.
    + apply path_eqb_spec in E. rewrite (zsum_map_ext _ (fun _ => 0)); [rewrite zsum_map_zero; reflexivity|].
      intros c _. destruct (is_child me (fst c)) eqn:Hc; [|reflexivity].
      destruct (is_prefix (fst c) (fst r)) eqn:Hpc; [|reflexivity].
      destruct (child_on_path_unique _ _ _ Hc Hpc) as (_ & _ & Hne). congruence.
    + assert (fst r <> me) as Hne by (intros X; apply path_eqb_spec in X; congruence).
      destruct (step_child _ _ Hp Hne) as (Hc0 & Hp0 & Hlen).
      set (c0 := firstn (S (length me)) (fst r)) in *.
      rewrite (zsum_map_ext _ (fun c => ind (path_eqb (fst c) c0))).
      * rewrite key_count_in; [reflexivity|exact Hnd|]. apply (Hcl r Hr). exact Hlen.
      * intros c _. destruct (path_eqb (fst c) c0) eqn:E2.
        -- apply path_eqb_spec in E2. rewrite E2, Hc0, Hp0. reflexivity.
        -- destruct (is_child me (fst c)) eqn:Hc; [|reflexivity].
           destruct (is_prefix (fst c) (fst r)) eqn:Hpc; [|reflexivity].
           destruct (child_on_path_unique _ _ _ Hc Hpc) as (Heq & _ & _).
           exfalso. assert (path_eqb (fst c) c0 = true) by (apply path_eqb_spec; exact Heq). congruence.
  - destruct (path_eqb (fst r) me) eqn:E.
    + apply path_eqb_spec in E. rewrite E, is_prefix_refl in Hp. discriminate.
    + rewrite (zsum_map_ext _ (fun _ => 0)); [rewrite zsum_map_zero; reflexivity|].
      intros c _. destruct (is_child me (fst c)) eqn:Hc; [|reflexivity].
      destruct (is_prefix (fst c) (fst r)) eqn:Hpc; [|reflexivity].
      destruct (child_on_path_unique _ _ _ Hc Hpc) as (_ & Hpm & _). congruence.
Qed.

Lemma spec_as_ind rows me : spec rows me = zsum (map (fun r => ind (is_prefix me (fst r)) * snd r) rows).
Proof. unfold spec. apply zsum_map_filter. Qed.

Theorem spec_children rows me : NoDup (map fst rows) -> closed rows -> In me rows ->
  spec rows (fst me) = snd me +
    zsum (map (fun c => spec rows (fst c)) (filter (fun c => is_child (fst me) (fst c)) rows)).
Proof.
  intros Hnd Hcl Hin. rewrite spec_as_ind.
  rewrite (zsum_map_ext _ (fun r => ind (path_eqb (fst r) (fst me)) * snd r +
     zsum (map (fun c => ind (is_child (fst me) (fst c) && is_prefix (fst c) (fst r)) * snd r) rows))).
  2:{ intros r Hr. rewrite (decompose rows (fst me) r Hnd Hcl Hr).
      rewrite (zsum_map_mul_r (fun c => ind (is_child (fst me) (fst c) && is_prefix (fst c) (fst r))) (snd r) rows). ring. }
  rewrite zsum_map_add, lookup_sum by assumption. f_equal.
  rewrite (zsum_exchange (fun c r => ind (is_child (fst me) (fst c) && is_prefix (fst c) (fst r)) * snd r)).
  rewrite zsum_map_filter. apply zsum_map_ext. intros c _.
  rewrite spec_as_ind. destruct (is_child (fst me) (fst c)); cbn [andb ind].
  - rewrite Z.mul_1_l. reflexivity.
  - rewrite (zsum_map_ext _ (fun _ => 0)); [rewrite zsum_map_zero; lia|]. intros; lia.
Qed.

Lemma maxdepth_ge rows r : In r rows -> (length (fst r) <= maxdepth rows)%nat.
Proof. unfold maxdepth. induction rows as [|c rows IH]; intros H; [destruct H|].
  cbn [map fold_right]. destruct H as [H|H]; [subst; lia|]. specialize (IH H). lia. Qed.

Theorem tree_correct rows : NoDup (map fst rows) -> closed rows ->
  forall fuel me, In me rows -> (maxdepth rows < fuel + length (fst me))%nat ->
  tree fuel rows me = spec rows (fst me).
Proof.
  intros Hnd Hcl. induction fuel as [|f IH]; intros me Hin Hf.
  - pose proof (maxdepth_ge rows me Hin) as Hm. exfalso. unfold row, path in *. lia.
  - cbn [tree]. rewrite (spec_children rows me Hnd Hcl Hin). f_equal.
    apply zsum_map_ext. intros c Hc. apply filter_In in Hc. destruct Hc as [Hc Hch].
    apply IH; [exact Hc|]. rewrite (child_len _ _ Hch). lia.
Qed.
Print Assumptions tree_correct.

(* non-vacuity: a gap tree a, a:b (gap), a:b:c=5, a:d=-2 *)
Example ex_rows : list row := [([1%nat],0); ([1%nat;2%nat],0); ([1%nat;2%nat;3%nat],5); ([1%nat;4%nat],-2)].
Example ex_tree : tree 4 ex_rows ([1%nat],0) = 3. Proof. vm_compute. reflexivity. Qed.
