// tkh: implementation-side driver of the correspondence checks.
// Reads one JSON request per line on stdin, writes one JSON result per line on stdout.
// Built from /repo's current working tree with --cfg tackler_verif.
use serde_json::{Value, json};
use std::io::{BufRead, Write};
use std::panic::{AssertUnwindSafe, catch_unwind};
use std::path::{Path, PathBuf};
use tackler_api::filters::FilterDefinition;
use tackler_core::config::overlaps::OverlapConfig;
use tackler_core::config::{Config, PriceLookupType};
use tackler_core::export::{EquityExporter, EquitySettings, Export, IdentityExporter};
use tackler_core::kernel::settings::Settings;
use tackler_core::model::{TxnData, TxnSet};
use tackler_core::parser;
use tackler_core::report::{BalanceGroupReporter, BalanceReporter, RegisterReporter, Report};
use tackler_core::verif;

mod misc;
mod ops_c18;

type Res<T> = Result<T, Box<dyn std::error::Error + Send + Sync>>;

fn sv(v: &Value) -> Vec<String> {
    v.as_array()
        .map(|a| {
            a.iter()
                .filter_map(|x| x.as_str().map(|s| s.to_string()))
                .collect()
        })
        .unwrap_or_default()
}

fn raw(s: String) -> Value {
    // the hooks produce JSON text; re-parse so that the output line is one JSON value
    serde_json::from_str(&s).unwrap_or(Value::String(s))
}

fn write_conf(dir: &Path, conf: &Value) -> Res<PathBuf> {
    std::fs::create_dir_all(dir)?;
    for (k, fname) in [
        ("toml", "tackler.toml"),
        ("accounts", "accounts.toml"),
        ("commodities", "commodities.toml"),
        ("tags", "tags.toml"),
        ("pricedb", "prices.db"),
    ] {
        if let Some(t) = conf.get(k).and_then(|x| x.as_str()) {
            std::fs::write(dir.join(fname), t)?;
        }
    }
    Ok(dir.join("tackler.toml"))
}

fn overlaps_of(v: Option<&Value>, dir: &Path) -> Res<OverlapConfig> {
    let mut o = OverlapConfig::default();
    let Some(v) = v else { return Ok(o) };
    if let Some(b) = v.get("strict").and_then(|x| x.as_bool()) {
        o.strict.mode = Some(b);
    }
    if let Some(b) = v.get("audit").and_then(|x| x.as_bool()) {
        o.audit.mode = Some(b);
    }
    if let Some(a) = v.get("accounts") {
        if a.is_array() {
            o.report.account_overlap = Some(sv(a));
        }
    }
    if let Some(s) = v.get("commodity").and_then(|x| x.as_str()) {
        o.report.commodity = Some(s.to_string());
    }
    if let Some(s) = v.get("group_by").and_then(|x| x.as_str()) {
        o.report.group_by = Some(s.to_string());
    }
    if let Some(s) = v.get("lookup_type").and_then(|x| x.as_str()) {
        o.price.lookup_type = Some(PriceLookupType::try_from(s)?);
    }
    if let Some(s) = v.get("before_time").and_then(|x| x.as_str()) {
        o.price.before_time = Some(s.to_string());
    }
    if let Some(s) = v.get("db_path").and_then(|x| x.as_str()) {
        o.price.db_path = Some(dir.join(s));
    }
    if let Some(a) = v.get("reports") {
        if a.is_array() {
            o.target.reports = Some(sv(a));
        }
    }
    if let Some(a) = v.get("exports") {
        if a.is_array() {
            o.target.exports = Some(sv(a));
        }
    }
    Ok(o)
}

fn load(dir: &Path, req: &Value, settings: &mut Settings) -> Res<TxnData> {
    let inputs = req
        .get("inputs")
        .and_then(|x| x.as_array())
        .cloned()
        .unwrap_or_default();
    let mode = req.get("load").and_then(|x| x.as_str()).unwrap_or("string");
    match mode {
        "string" => {
            let text: String = inputs
                .iter()
                .map(|i| i.get("text").and_then(|x| x.as_str()).unwrap_or(""))
                .collect::<Vec<_>>()
                .join("");
            let mut s: &str = text.as_str();
            parser::string_to_txns(&mut s, settings)
        }
        "paths" => {
            // files are written below <dir>/in and given in request order
            let mut paths = Vec::new();
            for i in &inputs {
                let name = i.get("name").and_then(|x| x.as_str()).unwrap_or("x.txn");
                let p = dir.join("in").join(name);
                if let Some(parent) = p.parent() {
                    std::fs::create_dir_all(parent)?;
                }
                if let Some(b) = i.get("bytes").and_then(|x| x.as_array()) {
                    let bs: Vec<u8> = b.iter().map(|x| x.as_u64().unwrap_or(0) as u8).collect();
                    std::fs::write(&p, bs)?;
                } else {
                    std::fs::write(&p, i.get("text").and_then(|x| x.as_str()).unwrap_or(""))?;
                }
                paths.push(p);
            }
            parser::paths_to_txns(&paths, settings)
        }
        "fsdir" => {
            for i in &inputs {
                let name = i.get("name").and_then(|x| x.as_str()).unwrap_or("x.txn");
                let p = dir.join("in").join(name);
                if let Some(parent) = p.parent() {
                    std::fs::create_dir_all(parent)?;
                }
                if let Some(target) = i.get("symlink_to").and_then(|x| x.as_str()) {
                    // a symbolic link (relative target) instead of a file
                    std::os::unix::fs::symlink(target, &p)?;
                } else {
                    std::fs::write(&p, i.get("text").and_then(|x| x.as_str()).unwrap_or(""))?;
                }
            }
            let sub = req.get("fs_dir").and_then(|x| x.as_str()).unwrap_or("");
            let ext = req.get("fs_ext").and_then(|x| x.as_str()).unwrap_or("txn");
            let paths = tackler_rs::get_paths_by_ext(&dir.join("in").join(sub), ext)?;
            parser::paths_to_txns(&paths, settings)
        }
        "fsabs" => {
            // an existing directory (e.g. a checkout made by the caller)
            let root = req.get("fs_abs").and_then(|x| x.as_str()).unwrap_or("");
            let ext = req.get("fs_ext").and_then(|x| x.as_str()).unwrap_or("txn");
            let paths = tackler_rs::get_paths_by_ext(Path::new(root), ext)?;
            parser::paths_to_txns(&paths, settings)
        }
        "git" => {
            let repo = req.get("git_repo").and_then(|x| x.as_str()).unwrap_or("");
            let gdir = req.get("git_dir").and_then(|x| x.as_str()).unwrap_or("");
            let ext = req.get("git_ext").and_then(|x| x.as_str()).unwrap_or("txn");
            let sel = if let Some(c) = req.get("git_commit").and_then(|x| x.as_str()) {
                parser::GitInputSelector::CommitId(c.to_string())
            } else {
                parser::GitInputSelector::Reference(
                    req.get("git_ref")
                        .and_then(|x| x.as_str())
                        .unwrap_or("main")
                        .to_string(),
                )
            };
            parser::git_to_txns(Path::new(repo), gdir, ext, sel, settings)
        }
        _ => Err("unknown load mode".into()),
    }
}

fn run_op(op: &Value, ts: &TxnSet<'_>, settings: &mut Settings) -> Res<Value> {
    let name = op.get("op").and_then(|x| x.as_str()).unwrap_or("");
    let ras = op.get("ras").map(sv).unwrap_or_default();
    match name {
        "txns" => Ok(raw(verif::txn_set_json(ts))),
        "metadata" => Ok(match verif::metadata_text(ts, settings) {
            Some(t) => Value::String(t),
            None => Value::Null,
        }),
        "balance" => {
            let kind = match op.get("kind").and_then(|x| x.as_str()) {
                Some("equity") => verif::BalSel::Equity,
                _ => verif::BalSel::Report,
            };
            let prices = op.get("prices").and_then(|x| x.as_bool()).unwrap_or(true);
            Ok(raw(verif::balance_json(ts, settings, kind, &ras, prices)?))
        }
        "balgrp" => Ok(raw(verif::balance_groups_json(ts, settings, &ras)?)),
        "register" => Ok(raw(verif::register_json(ts, settings, &ras)?)),
        "pricectx" => Ok(raw(verif::price_ctx_json(ts, settings))),
        "pricedb" => Ok(raw(verif::price_db_json(settings))),
        "settings" => Ok(raw(verif::settings_json(settings))),
        "text_balance" => {
            let mut w: Vec<u8> = Vec::new();
            BalanceReporter::try_from(&*settings)?.write_txt_report(settings, &mut w, ts)?;
            Ok(Value::String(String::from_utf8(w)?))
        }
        "text_balgrp" => {
            let mut w: Vec<u8> = Vec::new();
            let r = BalanceGroupReporter {
                report_settings: (&*settings).try_into()?,
            };
            r.write_txt_report(settings, &mut w, ts)?;
            Ok(Value::String(String::from_utf8(w)?))
        }
        "text_register" => {
            let mut w: Vec<u8> = Vec::new();
            let r = RegisterReporter {
                report_settings: (&*settings).try_into()?,
            };
            r.write_txt_report(settings, &mut w, ts)?;
            Ok(Value::String(String::from_utf8(w)?))
        }
        "identity" => {
            let mut w: Vec<u8> = Vec::new();
            IdentityExporter {}.write_export(settings, &mut w, ts)?;
            Ok(Value::String(String::from_utf8(w)?))
        }
        "equity" => {
            let mut w: Vec<u8> = Vec::new();
            let e = EquityExporter {
                export_settings: EquitySettings::from(settings)?,
            };
            e.write_export(settings, &mut w, ts)?;
            Ok(Value::String(String::from_utf8(w)?))
        }
        _ => Err(format!("unknown op {name}").into()),
    }
}

fn session(req: &Value, scratch: &Path) -> Res<Value> {
    let dir = scratch.to_path_buf();
    let _ = std::fs::remove_dir_all(&dir);
    let conf_path = write_conf(&dir, req.get("conf").unwrap_or(&Value::Null))?;
    let cfg = match Config::from(&conf_path) {
        Ok(c) => c,
        Err(e) => return Ok(json!({"stage":"config","err":e.to_string()})),
    };
    let overlaps = overlaps_of(req.get("overlaps"), &dir)?;
    let mut settings = match Settings::try_from(cfg, overlaps) {
        Ok(s) => s,
        Err(e) => return Ok(json!({"stage":"settings","err":e.to_string()})),
    };
    let txn_data = match load(&dir, req, &mut settings) {
        Ok(t) => t,
        Err(e) => return Ok(json!({"stage":"load","err":e.to_string()})),
    };
    if let Some(mf) = req.get("multi_filters").and_then(|x| x.as_array()) {
        // several transaction sets from ONE TxnData, in request order (null = get_all)
        let mut out = Vec::new();
        for f in mf {
            let ts = match f.as_str() {
                Some(fs) => {
                    let fd = if FilterDefinition::is_armored(fs) {
                        FilterDefinition::from_armor(fs)
                    } else {
                        FilterDefinition::from_json_str(fs)
                    };
                    match fd {
                        Ok(fd) => txn_data.filter(&fd),
                        Err(e) => Err(e),
                    }
                }
                None => txn_data.get_all(),
            };
            out.push(match ts {
                Ok(ts) => json!({"txns": raw(verif::txn_set_json(&ts)),
                                 "metadata": verif::metadata_text(&ts, &settings)}),
                Err(e) => json!({"err": e.to_string()}),
            });
        }
        let _ = std::fs::remove_dir_all(&dir);
        return Ok(json!({"stage":"done","multi":out}));
    }
    let filt = match req.get("filter").and_then(|x| x.as_str()) {
        Some(f) => {
            let r = if FilterDefinition::is_armored(f) {
                FilterDefinition::from_armor(f)
            } else {
                FilterDefinition::from_json_str(f)
            };
            match r {
                Ok(fd) => Some(fd),
                Err(e) => return Ok(json!({"stage":"filter","err":e.to_string()})),
            }
        }
        None => None,
    };
    let ts = match &filt {
        Some(fd) => txn_data.filter(fd),
        None => txn_data.get_all(),
    };
    let ts = match ts {
        Ok(t) => t,
        Err(e) => return Ok(json!({"stage":"txnset","err":e.to_string()})),
    };
    let mut results = Vec::new();
    for op in req
        .get("ops")
        .and_then(|x| x.as_array())
        .cloned()
        .unwrap_or_default()
    {
        let r = catch_unwind(AssertUnwindSafe(|| run_op(&op, &ts, &mut settings)));
        results.push(match r {
            Ok(Ok(v)) => json!({"ok": v}),
            Ok(Err(e)) => json!({"err": e.to_string()}),
            Err(_) => json!({"panic": true}),
        });
    }
    let _ = std::fs::remove_dir_all(&dir);
    Ok(json!({"stage":"done","n":ts.txns_len(),"results":results}))
}

trait TxnsLen {
    fn txns_len(&self) -> usize;
}
impl TxnsLen for TxnSet<'_> {
    fn txns_len(&self) -> usize {
        // TxnSet has no public len; size is reported through the txns dump by callers
        0
    }
}

fn run_request(req: &Value, scratch: &Path) -> Value {
    let kind = req.get("kind").and_then(|x| x.as_str()).unwrap_or("session");
    let r = catch_unwind(AssertUnwindSafe(|| match kind {
        "session" => session(req, scratch),
        other => misc::dispatch(other, req, scratch),
    }));
    match r {
        Ok(Ok(v)) => v,
        Ok(Err(e)) => json!({"stage":"harness","err":e.to_string()}),
        Err(_) => json!({"stage":"panic","panic":true}),
    }
}

fn main() {
    std::panic::set_hook(Box::new(|_| {}));
    let args: Vec<String> = std::env::args().collect();
    let scratch_root = args
        .get(1)
        .cloned()
        .unwrap_or_else(|| "/verif/.cache/tmp".to_string());
    let scratch = Path::new(&scratch_root).join(format!("tkh-{}", std::process::id()));
    let stdin = std::io::stdin();
    let stdout = std::io::stdout();
    let mut out = stdout.lock();
    for line in stdin.lock().lines() {
        let Ok(line) = line else { break };
        if line.trim().is_empty() {
            continue;
        }
        let req: Value = match serde_json::from_str(&line) {
            Ok(v) => v,
            Err(e) => {
                let _ = writeln!(out, "{}", json!({"stage":"request","err":e.to_string()}));
                continue;
            }
        };
        // "stack_kb": run the request in a thread with that stack size (recursion-depth regressions
        // become observable with small inputs; a stack overflow aborts the process as usual)
        let v = match req.get("stack_kb").and_then(|x| x.as_u64()) {
            Some(kb) => {
                let (req2, scratch2) = (req.clone(), scratch.clone());
                std::thread::Builder::new()
                    .stack_size(kb as usize * 1024)
                    .spawn(move || run_request(&req2, &scratch2))
                    .ok()
                    .and_then(|h| h.join().ok())
                    .unwrap_or_else(|| json!({"stage":"panic","panic":true}))
            }
            None => run_request(&req, &scratch),
        };
        let mut v = v;
        if let (Some(id), Some(o)) = (req.get("id"), v.as_object_mut()) {
            o.insert("id".to_string(), id.clone());
        }
        let _ = writeln!(out, "{}", v);
        let _ = out.flush();
    }
    let _ = std::fs::remove_dir_all(&scratch);
}
