// C18 — filter definition codec: plain JSON / base64 armor, re-serialisation, Display text.
use base64::{Engine as _, engine::general_purpose};
use jiff::tz::TimeZone;
use serde_json::{Value, json};
use tackler_api::filters::{FilterDefZoned, FilterDefinition};

type Res<T> = Result<T, Box<dyn std::error::Error + Send + Sync>>;

fn parse(via: &str, s: &str) -> Result<FilterDefinition, String> {
    let r = match via {
        "armor" => FilterDefinition::from_armor(s),
        "json" => FilterDefinition::from_json_str(s),
        // what tackler-cli and the session op do
        _ => {
            if FilterDefinition::is_armored(s) {
                FilterDefinition::from_armor(s)
            } else {
                FilterDefinition::from_json_str(s)
            }
        }
    };
    r.map_err(|e| e.to_string())
}

fn text(fd: &FilterDefinition) -> String {
    format!(
        "{}",
        FilterDefZoned {
            filt_def: fd,
            tz: TimeZone::UTC
        }
    )
}

/// kind "filter_codec": {"s": text, "via": "auto"|"armor"|"json"}
pub fn filter_codec(req: &Value) -> Res<Value> {
    let s = req.get("s").and_then(|x| x.as_str()).ok_or("s")?;
    let via = req.get("via").and_then(|x| x.as_str()).unwrap_or("auto");
    let armored = FilterDefinition::is_armored(s);
    let fd = match parse(via, s) {
        Ok(fd) => fd,
        Err(e) => return Ok(json!({"stage":"done","armored":armored,"err":e})),
    };
    let j1 = match serde_json::to_string(&fd) {
        Ok(j) => j,
        Err(e) => {
            return Ok(
                json!({"stage":"done","armored":armored,"ok":{"text":text(&fd),"ser_err":e.to_string()}}),
            );
        }
    };
    let t1 = text(&fd);
    let (re_ok, j2, t2) = match FilterDefinition::from_json_str(&j1) {
        Ok(fd2) => (
            true,
            serde_json::to_string(&fd2).unwrap_or_else(|e| format!("ser_err: {e}")),
            text(&fd2),
        ),
        Err(e) => (false, e.to_string(), String::new()),
    };
    Ok(json!({"stage":"done","armored":armored,
              "ok":{"json":j1,"text":t1,"reparse_ok":re_ok,"json2":j2,"text2":t2}}))
}

/// kind "b64_decode": {"s": text} — the engine from_armor uses (general_purpose::STANDARD)
pub fn b64_decode(req: &Value) -> Res<Value> {
    let s = req.get("s").and_then(|x| x.as_str()).ok_or("s")?;
    Ok(match general_purpose::STANDARD.decode(s) {
        Ok(v) => json!({"stage":"done","ok":v}),
        Err(e) => json!({"stage":"done","err":e.to_string()}),
    })
}

/// kind "b64_encode": {"bytes": [..]}
pub fn b64_encode(req: &Value) -> Res<Value> {
    let b: Vec<u8> = req
        .get("bytes")
        .and_then(|x| x.as_array())
        .ok_or("bytes")?
        .iter()
        .map(|x| x.as_u64().unwrap_or(0) as u8)
        .collect();
    Ok(json!({"stage":"done","ok":general_purpose::STANDARD.encode(b)}))
}

/// kind "regex_ok": {"ps": [pattern..]} — Regex::new on the text itself ("raw") and on ^(?:text)$ ("wrapped");
/// "full_haystack": what tackler's new_full_haystack_regex says
pub fn regex_ok(req: &Value) -> Res<Value> {
    let ps = req.get("ps").and_then(|x| x.as_array()).ok_or("ps")?;
    let out: Vec<Value> = ps
        .iter()
        .map(|p| {
            let p = p.as_str().unwrap_or("");
            json!({"raw": regex::Regex::new(p).is_ok(),
                   "wrapped": regex::Regex::new(&format!("^(?:{p})$")).is_ok(),
                   "full_haystack": tackler_rs::regex::new_full_haystack_regex(p).is_ok()})
        })
        .collect();
    Ok(json!({"stage":"done","ok":out}))
}

pub fn dispatch(kind: &str, req: &Value) -> Option<Res<Value>> {
    match kind {
        "filter_codec" => Some(filter_codec(req)),
        "b64_decode" => Some(b64_decode(req)),
        "b64_encode" => Some(b64_encode(req)),
        "regex_ok" => Some(regex_ok(req)),
        _ => None,
    }
}
