// small value-level operations (decimal contract, regex wrapper, ...)
use rust_decimal::{Decimal, RoundingStrategy};
use serde_json::{Value, json};
use std::path::Path;
use tackler_core::verif;

type Res<T> = Result<T, Box<dyn std::error::Error + Send + Sync>>;

pub fn dec_of(v: &Value) -> Res<Decimal> {
    let m: u128 = v
        .get("m")
        .and_then(|x| x.as_str())
        .ok_or("dec.m")?
        .parse()?;
    let s = v.get("s").and_then(|x| x.as_u64()).ok_or("dec.s")? as u32;
    let n = v.get("n").and_then(|x| x.as_bool()).unwrap_or(false);
    let lo = (m & 0xffff_ffff) as u32;
    let mid = ((m >> 32) & 0xffff_ffff) as u32;
    let hi = ((m >> 64) & 0xffff_ffff) as u32;
    if (m >> 96) != 0 {
        return Err("mantissa exceeds 96 bits".into());
    }
    Ok(Decimal::from_parts(lo, mid, hi, n, s))
}

pub fn jd(d: &Decimal) -> Value {
    serde_json::from_str(&verif::jd(d)).unwrap_or(Value::Null)
}

fn dec_op(req: &Value) -> Res<Value> {
    let op = req.get("op").and_then(|x| x.as_str()).unwrap_or("");
    let a = dec_of(req.get("a").ok_or("a")?)?;
    let b = req.get("b").map(dec_of).transpose()?;
    let k = req.get("k").and_then(|x| x.as_u64()).unwrap_or(0) as u32;
    Ok(match op {
        "add" => jd(&(a + b.ok_or("b")?)),
        "sub" => jd(&(a - b.ok_or("b")?)),
        "mul" => jd(&(a * b.ok_or("b")?)),
        "div" => jd(&(a / b.ok_or("b")?)),
        "neg" => jd(&(-a)),
        "sum" => {
            let xs = req
                .get("xs")
                .and_then(|x| x.as_array())
                .ok_or("xs")?
                .iter()
                .map(dec_of)
                .collect::<Res<Vec<_>>>()?;
            jd(&xs.into_iter().sum::<Decimal>())
        }
        "cmp" => json!(format!("{:?}", a.cmp(&b.ok_or("b")?))),
        "is_zero" => json!(a.is_zero()),
        "fmt" => json!(format!("{}", a)),
        "fmt_prec" => json!(format!("{:.prec$}", a, prec = k as usize)),
        "round_hafz" => jd(&a.round_dp_with_strategy(k, RoundingStrategy::MidpointAwayFromZero)),
        "parse" => json!(null),
        _ => return Err("unknown dec op".into()),
    })
}

pub fn dispatch(kind: &str, req: &Value, _scratch: &Path) -> Res<Value> {
    match kind {
        "dec" => Ok(json!({"stage":"done","ok": dec_op(req)?})),
        "dec_parse" => {
            let s = req.get("s").and_then(|x| x.as_str()).unwrap_or("");
            Ok(match Decimal::from_str_exact(s) {
                Ok(d) => json!({"stage":"done","ok": jd(&d)}),
                Err(e) => json!({"stage":"done","err": e.to_string()}),
            })
        }
        "filter_codec" | "b64_decode" | "b64_encode" | "regex_ok" => crate::ops_c18::dispatch(kind, req).unwrap_or_else(|| Err("c18".into())),
        _ => Err(format!("unknown kind {kind}").into()),
    }
}
